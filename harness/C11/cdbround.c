/* C11 (1) - writer -> reader round trip on a CONCRETE key set: the REAL cdbmss.c,
 * cdbmake_add.c, cdbmake_hash.c, cdbmake_pack.c write a database for three records whose
 * keys are concrete ("a", "b", and "a" again) and whose data bytes are symbolic; the REAL
 * cdb_seek.c / cdb_hash.c / cdb_unpack.c then look every key up in exactly the bytes that
 * were written.  "The compiled assignment database returns for every key exactly what the
 * source table says" and "first duplicate wins".
 *
 * With symbolic keys this does not close (DESIGN 3: 256-way symbolic bucket index); with
 * concrete keys it is an execution of the writer, so it complements cdb_seek_spec /
 * cdb_writer (which are symbolic but cannot have more records than fit their bound).
 * The writer keeps its records in chunks of CDBMAKE_HPLIST (1000) entries and walks the
 * chunk list when it builds the hash tables; the order of equal keys ACROSS chunks is what
 * decides which duplicate is found.  1000 records per chunk are outside every bound, so the
 * regenerated copy of cdbmake.h has the constant set to 1 (its only edit): every record is
 * its own chunk.
 */
#include "verif.h"
#include <sys/types.h>
#include <unistd.h>
#include <errno.h>
#include "cdbmss.h"
#include "cdb.h"

#define IMG (2048 + 3 * (8 + 1 + 1) + 6 * 8 + 64)
#define FD 4

unsigned char d0, d1, d2;            /* data bytes of the three records */

void sym_inputs(void)
{
#ifdef REPLAY
#include "replay_inputs.inc"
#else
  SYM(d0); SYM(d1); SYM(d2);
#endif
}

static unsigned char img[IMG];
static uint32 wpos, maxpos, rpos;
static struct cdbmss c;
static int reading;

off_t vf_lseek(int fd, off_t off, int whence)
{
  CHECK(fd == FD && whence == SEEK_SET && off >= 0 && off <= IMG, "absolute seek inside the file");
  if (reading) rpos = (uint32) off; else wpos = (uint32) off;
  return off;
}
ssize_t vf_read(int fd, void *buf, size_t n)
{
  size_t i;
  CHECK(fd == FD && reading, "the reader reads the database file");
  if (rpos >= maxpos) return 0;
  for (i = 0; i < n; ++i) { if (rpos >= maxpos) break; ((unsigned char *) buf)[i] = img[rpos++]; }
  return (ssize_t) i;
}
int ideal_getc(substdio *s) { return -1; }
int ideal_putc(substdio *s, unsigned char ch)
{
  CHECK(s == &c.ss && !reading, "the writer uses its own stream");
  CHECK(wpos < IMG, "file fits (harness sizing)");
  ASSUME(wpos < IMG);
  img[wpos++] = ch;
  if (wpos > maxpos) maxpos = wpos;
  return 0;
}
int ideal_flush(substdio *s) { return 0; }

static int lookup(char *key, unsigned char *data)
{
  uint32 dlen = 0; char b;
  int r = cdb_seek(FD, key, 1, &dlen);
  if (r == 1) {
    CHECK(dlen == 1, "C11: the data length found is the length in the source");
    CHECK(cdb_bread(FD, &b, 1) == 0, "data can be read");
    *data = (unsigned char) b;
  }
  return r;
}

void vmain(void)
{
  unsigned char got = 0;
  char k_a[1] = { 'a' }, k_b[1] = { 'b' }, k_c[1] = { 'c' };
  char v;
  sym_inputs();
  CHECK(cdbmss_start(&c, FD) == 0, "start");
  v = (char) d0; CHECK(cdbmss_add(&c, k_a, 1, &v, 1) == 0, "add a");
  v = (char) d1; CHECK(cdbmss_add(&c, k_b, 1, &v, 1) == 0, "add b");
  v = (char) d2; CHECK(cdbmss_add(&c, k_a, 1, &v, 1) == 0, "add a again (duplicate, later line)");
  CHECK(cdbmss_finish(&c) == 0, "finish");
  reading = 1;
  CHECK(lookup(k_a, &got) == 1 && got == d0, "C11: a duplicated key returns the FIRST line's data");
  CHECK(lookup(k_b, &got) == 1 && got == d1, "C11: every key returns exactly what the source table says");
  CHECK(lookup(k_c, &got) == 0, "C11: a key that is not in the source is not found");
  WITNESS("round_trip");
}
