/* C11 (5) - qmail-getpw.c (main + userext), the password-file rules of qmail-getpw.8:
 * an account is a user iff (1) its uid is nonzero, (2) its home directory exists, (3) it
 * owns its home directory; `local` belongs to user U when it is U or U BREAK anything
 * (case of U ignored; the LONGEST such U wins - property text), dash/ext accordingly;
 * everything else goes to the alias user with dash "-" and ext = local.  Output: six
 * NUL-terminated fields user, uid, gid, homedir, dash, ext.  "In case of trouble,
 * qmail-getpw exits nonzero without printing anything."
 *
 * Real code: qmail-getpw.c, case_lowers.c, fmt_ulong.c, byte_copy.c, error_temp.c,
 * auto_break.c, auto_usera.c (the configured break character and alias user).
 * Environment: getpwnam over a symbolic 2-entry passwd table (+ the alias account, which may
 * be missing), may report ETXTBSY once; stat per home: owner symbolic, or ENOENT, or EIO. */
#include "verif.h"
#include <errno.h>
#include <string.h>
#include "gen_qmail-getpw.c"

#ifndef L
#define L 3                        /* length of the local part (grid) */
#endif
#define NM 2                       /* account names: 1..NM bytes */
#define NP 2
#define OUTMAX (8 + 4 + 4 + 4 + 2 + L + 1 + 4)

unsigned char local_in[L];
unsigned char pname[NP][NM]; unsigned int pnlen[NP];
unsigned char ud[NP + 1][3], gd[NP + 1][3];     /* uid/gid as three decimal digits (entry NP = alias) */
unsigned int owner_same[NP + 1];                /* home owned by the account itself? */
unsigned int owner_other;                       /* else this uid owns it */
unsigned int statmode[NP + 1];                  /* 0 ok, 1 ENOENT, 2 EIO */
unsigned int alias_exists, busy_at;

static char localz[L + 1];
static char names[NP + 1][8];
static char *dirs[NP + 1] = { "/h0", "/h1", "/al" };
static struct passwd pws[NP + 1];
static unsigned int ngetpw, busy_hit;
static unsigned char outb[OUTMAX]; static unsigned int outlen;
static int exited = -1;

char subfd_outbufsmall[256];
static substdio it_outsmall = SUBSTDIO_FDBUF(write, 1, subfd_outbufsmall, 256);
substdio *subfdoutsmall = &it_outsmall;

void sym_inputs(void)
{
#ifdef REPLAY
#include "replay_inputs.inc"
#else
  SYM_ARR(local_in); SYM_ARR(pname[0]); SYM_ARR(pname[1]); SYM_ARR(pnlen);
  SYM_ARR(ud[0]); SYM_ARR(ud[1]); SYM_ARR(ud[2]); SYM_ARR(gd[0]); SYM_ARR(gd[1]); SYM_ARR(gd[2]);
  SYM_ARR(owner_same); SYM(owner_other); SYM_ARR(statmode); SYM(alias_exists); SYM(busy_at);
#endif
}

static unsigned int val3(const unsigned char *d) { return 100u * d[0] + 10u * d[1] + d[2]; }

struct passwd *vf_getpwnam(const char *name)
{
  unsigned int i;
  ++ngetpw;
  if (busy_at && ngetpw == busy_at) { busy_hit = 1; errno = ETXTBSY; return 0; }
  if (strcmp(name, auto_usera) == 0) return alias_exists ? &pws[NP] : 0;
  for (i = 0; i < NP; ++i) if (strcmp(name, names[i]) == 0) return &pws[i];      /* first matching line of the passwd file */
  return 0;
}

int vf_stat(const char *path, struct stat *st)
{
  unsigned int i, e = NP + 1;
  for (i = 0; i <= NP; ++i) if (path == dirs[i]) e = i;
  CHECK(e <= NP, "stat is asked about an account's home directory");
  ASSUME(e <= NP);
  if (statmode[e] == 1) { errno = ENOENT; return -1; }
  if (statmode[e] == 2) { errno = EIO; return -1; }
  st->st_uid = owner_same[e] ? pws[e].pw_uid : (uid_t) owner_other;
  return 0;
}

int ideal_getc(substdio *s) { return -1; }
int ideal_putc(substdio *s, unsigned char c)
{
  CHECK(s == subfdoutsmall, "output goes to descriptor 1");
  CHECK(outlen < OUTMAX, "output fits (harness sizing)");
  ASSUME(outlen < OUTMAX);
  outb[outlen++] = c;
  return 0;
}
int ideal_flush(substdio *s) { return 0; }

/* ---- reference, written from qmail-getpw.8 */
static unsigned char lower(unsigned char c) { return (c >= 'A' && c <= 'Z') ? (unsigned char) (c + 32) : c; }

#define OUT_USER 0
#define OUT_ALIAS 1
#define OUT_NOALIAS 2
#define OUT_SYS 3
#define OUT_NFS 4
static int ref_kind, ref_entry; static unsigned int ref_k;

static void reference(void)
{
  unsigned int k, kk, i, j, calls = 0;
  for (kk = 0; kk <= L; ++kk) {
    k = L - kk;                                     /* longest candidate first */
    if (!(k == L || local_in[k] == (unsigned char) auto_break[0])) continue;
    if (k >= 32) continue;                          /* account names are shorter than 32 characters */
    ++calls;
    if (busy_at && calls == busy_at) { ref_kind = OUT_SYS; return; }
    {
      /* the passwd line getpwnam finds for lower(local[0..k)): the first table entry with that name, or the alias
       * account itself when the candidate spells its name (it is an account like any other) */
      int e = -1;
      for (i = 0; i < NP; ++i) {
        int eq = (pnlen[i] == k);
        for (j = 0; j < NM; ++j) { if (j >= k) break; if (eq && pname[i][j] != lower(local_in[j])) eq = 0; }
        if (eq && e < 0) e = (int) i;
      }
      if (e < 0 && alias_exists && k == strlen(auto_usera)) {
        int eq = 1;
        for (j = 0; j < L; ++j) { if (j >= k) break; if ((unsigned char) auto_usera[j] != lower(local_in[j])) eq = 0; }
        if (eq) e = NP;
      }
      if (e < 0) continue;
      if (pws[e].pw_uid == 0) continue;                                  /* (1) nonzero uid */
      if (statmode[e] == 1) continue;                                    /* (2) home exists */
      if (statmode[e] == 2) { ref_kind = OUT_NFS; return; }              /*     cannot tell: trouble */
      if (!owner_same[e] && (uid_t) owner_other != pws[e].pw_uid) continue; /* (3) owns its home */
      ref_kind = OUT_USER; ref_entry = e; ref_k = k; return;
    }
  }
  ++calls;
  if (busy_at && calls == busy_at) { ref_kind = OUT_ALIAS; ref_entry = -1; return; }   /* getpwnam("alias") fails: see vmain */
  ref_kind = alias_exists ? OUT_ALIAS : OUT_NOALIAS; ref_entry = NP;
}

static unsigned int exp_n; static unsigned char expb[OUTMAX];
static void exp_str(const char *s) { unsigned int i; for (i = 0; i < 8; ++i) { if (!s[i]) break; expb[exp_n++] = (unsigned char) s[i]; } expb[exp_n++] = 0; }
static void exp_num(const unsigned char *d)
{
  if (d[0]) expb[exp_n++] = (unsigned char) ('0' + d[0]);
  if (d[0] || d[1]) expb[exp_n++] = (unsigned char) ('0' + d[1]);
  expb[exp_n++] = (unsigned char) ('0' + d[2]);
  expb[exp_n++] = 0;
}

void vmain(void)
{
  unsigned int i, j;
  char *argv[3];
  int rc;
  sym_inputs();
  ASSUME(alias_exists <= 1);
  for (i = 0; i < L; ++i) { ASSUME(local_in[i] != 0); localz[i] = (char) local_in[i]; }
  localz[L] = 0;
  for (i = 0; i <= NP; ++i) {
    ASSUME(statmode[i] <= 2);
    for (j = 0; j < 3; ++j) ASSUME(ud[i][j] <= 9 && gd[i][j] <= 9);
    pws[i].pw_uid = (uid_t) val3(ud[i]); pws[i].pw_gid = (gid_t) val3(gd[i]);
    pws[i].pw_dir = dirs[i]; pws[i].pw_name = names[i];
  }
  for (i = 0; i < NP; ++i) {
    ASSUME(pnlen[i] >= 1 && pnlen[i] <= NM);
    for (j = 0; j < NM; ++j) { if (j < pnlen[i]) { ASSUME(pname[i][j] != 0); names[i][j] = (char) pname[i][j]; } else names[i][j] = 0; }
    names[i][NM] = 0;
  }
  strcpy(names[NP], auto_usera);
  reference();

  argv[0] = "qmail-getpw"; argv[1] = localz; argv[2] = 0;
  rc = getpw_main(2, argv);

  if (rc != 0) {
    CHECK(outlen == 0, "C11(5): in case of trouble nothing is printed");
    CHECK(rc == QLX_NOALIAS, "only the missing alias user is reported by return");
    CHECK(ref_kind == OUT_NOALIAS || (ref_kind == OUT_ALIAS && ref_entry == -1), "C11(5): QLX_NOALIAS only when no user matches and the alias account cannot be found");
    WITNESS("no_alias_116");
    return;
  }
  CHECK(ref_kind == OUT_USER || (ref_kind == OUT_ALIAS && ref_entry == NP), "C11(5): an answer is printed only when the rules give one");
  if (ref_kind == OUT_USER) {
    exp_str(names[ref_entry]); exp_num(ud[ref_entry]); exp_num(gd[ref_entry]); exp_str(dirs[ref_entry]);
    if (ref_k == L) { exp_str(""); exp_str(""); }
    else { exp_str("-"); for (i = ref_k + 1; i < L; ++i) expb[exp_n++] = local_in[i]; expb[exp_n++] = 0; }
  } else {
    exp_str(names[NP]); exp_num(ud[NP]); exp_num(gd[NP]); exp_str(dirs[NP]); exp_str("-");
    for (i = 0; i < L; ++i) expb[exp_n++] = local_in[i];
    expb[exp_n++] = 0;
  }
  CHECK(outlen == exp_n, "C11(5): six NUL-terminated fields, nothing else");
  for (i = 0; i < OUTMAX; ++i) { if (i >= exp_n || i >= outlen) break; CHECK(outb[i] == expb[i], "C11(5): user, uid, gid, homedir, dash, ext as the rules assign them"); }
  if (ref_kind == OUT_USER && ref_k == L) WITNESS("plain_user");
  if (ref_kind == OUT_USER && ref_k < L) WITNESS("user_dash_ext");
  if (ref_kind == OUT_USER && ref_entry == 1 && pnlen[0] < pnlen[1] && pnlen[0] < L && local_in[pnlen[0]] == (unsigned char) auto_break[0] && pws[0].pw_uid != 0 && statmode[0] == 0 && owner_same[0]) WITNESS("longest_user_wins");
  if (ref_kind == OUT_ALIAS) WITNESS("alias_catch_all");
  if (ref_kind == OUT_ALIAS && pnlen[0] == L && pws[0].pw_uid == 0) WITNESS("uid0_account_skipped");
  if (ref_kind == OUT_ALIAS && pnlen[0] == L && pws[0].pw_uid != 0 && statmode[0] == 0 && !owner_same[0]) WITNESS("foreign_owned_home_skipped");
  if (ref_kind == OUT_USER && local_in[0] >= 'A' && local_in[0] <= 'Z') WITNESS("mixed_case_local");
}

void vf__exit(int status)
{
  exited = status;
  CHECK(outlen == 0, "C11(5): in case of trouble nothing is printed");
  CHECK(status == QLX_SYS || status == QLX_NFS, "C11(5): trouble exits with QLX_SYS or QLX_NFS");
  if (status == QLX_SYS) { CHECK(ref_kind == OUT_SYS, "C11(5): QLX_SYS exactly when getpwnam reported a temporary error"); WITNESS("getpwnam_busy_118"); }
  if (status == QLX_NFS) { CHECK(ref_kind == OUT_NFS, "C11(5): QLX_NFS exactly when a candidate's home cannot be examined"); WITNESS("home_unreachable_115"); }
  PATH_END();
#ifdef VERIF_CBMC
  __CPROVER_assume(0);
#endif
}
