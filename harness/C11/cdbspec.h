/* cdbspec.h - the cdb file format, written from the format description that cdb.3 refers to,
 * for R <= 2 symbolic records; shared by the reader harness (cdbseek.c: every byte the
 * reader asks for is computed by file_byte) and the writer harness (cdbwriter.c: every byte
 * the writer produced is compared with file_byte).
 *   header: 256 entries (position, length) of the hash table of bucket h & 255;
 *   records from byte 2048: klen, dlen, key, data;
 *   hash tables: length = 2 * (records in the bucket) slots (hash, record position); a record
 *   sits at slot (h >> 8) mod length or, linearly probed in insertion order, the next free
 *   one; position 0 = empty slot; numbers 32-bit little-endian; h = 5381, h = (h * 33) ^ c.
 * The file order of two tables is a free choice of the writer (`order`), and so is the
 * position field of an empty bucket (`epos`). */
#ifndef CDBSPEC_H
#define CDBSPEC_H
#include <stdint.h>
#include "uint32.h"

#ifndef R
#define R 2
#endif
#define KL 2
#define DL 2
#define QMAX 3

unsigned char rkey[2][KL], rdata[2][DL];      /* INPUTS: the source records */
unsigned int rklen[2], rdlen[2];
unsigned int order;              /* which of two tables comes first in the file */
uint32 epos;                     /* position field of empty buckets: arbitrary */

static uint32 rh[2], rp[2], recs_end, file_end;
static uint32 t_first_bucket, t_second_bucket, t_first_len, t_second_len;   /* tables, in file order */
static uint32 slot_h[4], slot_p[4];
static uint32 ref_hash(const unsigned char *k, unsigned int n)
{
  uint32 h = 5381; unsigned int i;
  for (i = 0; i < QMAX; ++i) { if (i >= n) break; h = ((h << 5) + h) ^ k[i]; }
  return h;
}

static unsigned char le(uint32 v, uint32 byteidx) { return (unsigned char) (v >> (8 * byteidx)); }

/* the byte at position pos of the specified database */
static unsigned char file_byte(uint32 pos)
{
  unsigned int i;
  if (pos < 2048) {
    uint32 b = pos >> 3, v;
    uint32 len = 0, tp = epos;
    if (t_first_len && b == t_first_bucket) { len = t_first_len; tp = recs_end; }
    if (t_second_len && b == t_second_bucket) { len = t_second_len; tp = recs_end + 8 * t_first_len; }
    v = (pos & 4) ? len : tp;
    return le(v, pos & 3);
  }
  if (pos < recs_end) {
    for (i = 0; i < R; ++i) {
      uint32 off = pos - rp[i];
      if (pos >= rp[i] && off < 8 + rklen[i] + rdlen[i]) {
        if (off < 4) return le(rklen[i], off);
        if (off < 8) return le(rdlen[i], off - 4);
        if (off < 8 + rklen[i]) return rkey[i][off - 8];
        return rdata[i][off - 8 - rklen[i]];
      }
    }
    return 0;
  }
  {
    uint32 g = (pos - recs_end) >> 3;
    uint32 v = ((pos - recs_end) & 4) ? slot_p[g & 3] : slot_h[g & 3];
    return le(v, (pos - recs_end) & 3);
  }
}


/* lay the database out as the format prescribes (call once, after the inputs are set) */
static void spec_layout(void)
{
  unsigned int i, nslots;
  rp[0] = 2048; recs_end = 2048;
  for (i = 0; i < R; ++i) { rh[i] = ref_hash(rkey[i], rklen[i]); rp[i] = recs_end; recs_end += 8 + rklen[i] + rdlen[i]; }
  for (i = 0; i < 4; ++i) { slot_h[i] = 0; slot_p[i] = 0; }
#if R == 0
  nslots = 0;
#elif R == 1
  t_first_bucket = rh[0] & 255; t_first_len = 2; nslots = 2;
  slot_h[(rh[0] >> 8) % 2] = rh[0]; slot_p[(rh[0] >> 8) % 2] = rp[0];
#else
  nslots = 4;
  if ((rh[0] & 255) == (rh[1] & 255)) {
    uint32 s0 = (rh[0] >> 8) % 4, s1 = (rh[1] >> 8) % 4;
    t_first_bucket = rh[0] & 255; t_first_len = 4;
    slot_h[s0] = rh[0]; slot_p[s0] = rp[0];
    if (s1 == s0) s1 = (s1 + 1) % 4;                       /* linear probing, insertion order */
    slot_h[s1] = rh[1]; slot_p[s1] = rp[1];
  } else {
    unsigned int a = order ? 1 : 0, b = 1 - a;              /* record a's table is first in the file */
    t_first_bucket = rh[a] & 255; t_first_len = 2; t_second_bucket = rh[b] & 255; t_second_len = 2;
    slot_h[(rh[a] >> 8) % 2] = rh[a]; slot_p[(rh[a] >> 8) % 2] = rp[a];
    slot_h[2 + (rh[b] >> 8) % 2] = rh[b]; slot_p[2 + (rh[b] >> 8) % 2] = rp[b];
  }
#endif
  file_end = recs_end + 8 * nslots;
}
#endif
