/* C11 (1b) - the reader cdb_seek() (REAL cdb_seek.c, cdb_hash.c, cdb_unpack.c) over a file
 * that is served by stubs.  In MODE 0/1 cdb_bread() is cut and replaced by the contract
 * that MODE 2 proves on the real cdb_bread (exactly len bytes, or -1).
 *
 * MODE 0 - well-formed database, specified from the cdb format description (cdb.3 and the
 *   format text it refers to): 256 (position,length) header entries; records
 *   (klen,dlen,key,data) stored sequentially from byte 2048; one open hash table per
 *   bucket h&255 with length 2*count slots (hash,position), a record sitting at slot
 *   (h>>8) mod length or, linearly probed, in the next free one, in insertion order;
 *   position 0 = empty slot; all numbers 32-bit little-endian; h = 5381, h = (h*33) ^ c.
 *   The harness never materialises the 2 KB header: every byte the reader asks for is
 *   computed from the specification for R <= 2 symbolic records (keys 0..KL bytes, any
 *   bytes, duplicates and same-bucket collisions included; either order of the two tables).
 *   Claim (cdb.3): cdb_seek returns 1 iff the key is present, then *dlen is the data length
 *   of the FIRST record with that key and the descriptor points at its data; 0 iff absent;
 *   -1 only after a read/lseek error.  (Short reads: MODE 2.)
 * MODE 1 - corrupt / truncated file: read() serves NB arbitrary bytes (whatever position
 *   was asked for) and then EOF, lseek may fail: cdb_seek returns -1, 0 or 1 and touches no
 *   memory outside its buffers and the key (key block exactly QL bytes).
 * MODE 2 - cdb_bread(fd,buf,len), len 0..8, read() returning short counts, EINTR, EOF or an
 *   error from a tape: returns 0 with exactly the next len bytes in buf, or -1 (EOF counts
 *   as an error: the database is truncated). */
#include "verif.h"
#include <errno.h>
#include <sys/types.h>
#include <unistd.h>
#include <stdint.h>
#include "cdb.h"

#ifndef MODE
#define MODE 0
#endif
#define FD 4

#if MODE == 0
#include "cdbspec.h"

unsigned char qkey[QMAX]; unsigned int qlen;
unsigned int fail_at;            /* the fail_at-th read/lseek call fails (0 = none) */
static uint32 curpos;
static unsigned int ncalls, failed;

void sym_inputs(void)
{
#ifdef REPLAY
#include "replay_inputs.inc"
#else
  SYM_ARR(rkey[0]); SYM_ARR(rkey[1]); SYM_ARR(rdata[0]); SYM_ARR(rdata[1]); SYM_ARR(rklen); SYM_ARR(rdlen);
  SYM_ARR(qkey); SYM(qlen); SYM(order); SYM(epos); SYM(fail_at);
#endif
}

static int inject(void)
{
  ++ncalls;
  if (fail_at && ncalls == fail_at) { failed = 1; errno = EIO; return 1; }
  return 0;
}

/* cdb_bread is cut out of cdb_seek.c here and replaced by its contract (proved on the real
 * code in MODE 2): exactly len bytes, or -1 */
int cdb_bread(int fd, char *buf, int len)
{
  int i;
  CHECK(fd == FD, "cdb_seek reads the database descriptor");
  CHECK(len >= 0 && len <= 32, "cdb_seek reads 8 bytes or at most 32 key bytes at a time");
  if (inject()) return -1;
  CHECK(curpos <= file_end && (uint32) len <= file_end - curpos, "C11(1b): on a well-formed database the reader never reads beyond the end of the file");
  ASSUME(curpos <= file_end && (uint32) len <= file_end - curpos);
  for (i = 0; i < 32; ++i) {
    if (i >= len) break;
    buf[i] = (char) file_byte(curpos); ++curpos;         /* a write outside the caller's buffer is a cbmc/ASan failure */
  }
  return 0;
}

off_t vf_lseek(int fd, off_t off, int whence)
{
  CHECK(fd == FD && whence == SEEK_SET, "cdb_seek positions the database descriptor absolutely");
  if (inject()) return (off_t) -1;
  CHECK(off >= 0 && off <= (off_t) file_end, "C11(1b): on a well-formed database the reader never seeks outside the file");
  curpos = (uint32) off;
  return off;
}

static int key_is(unsigned int i) {
  unsigned int j;
  if (rklen[i] != qlen) return 0;
  for (j = 0; j < KL; ++j) { if (j >= qlen) break; if (rkey[i][j] != qkey[j]) return 0; }
  return 1;
}

void vmain(void)
{
  unsigned int i;
  uint32 dlen = 0xdeadbeef;
  int r, want = -1;
  sym_inputs();
  ASSUME(qlen <= QMAX && order <= 1);
  for (i = 0; i < R; ++i) ASSUME(rklen[i] <= KL && rdlen[i] <= DL);
  spec_layout();
  for (i = 0; i < R; ++i) { if (key_is(R - 1 - i)) want = (int) (R - 1 - i); }    /* first record with the key */

  r = cdb_seek(FD, (char *) qkey, qlen, &dlen);

  CHECK(r == -1 || r == 0 || r == 1, "C11(1b): cdb_seek returns -1, 0 or 1");
  if (r == -1) { CHECK(failed, "C11(1b): -1 only after a read or lseek error"); WITNESS("io_error"); }
  else if (!failed) {
    CHECK((r == 1) == (want >= 0), "C11(1b): found iff the key is present in the source records");
    if (r == 1 && want >= 0) {
      CHECK(dlen == rdlen[want], "C11(1b): data length of the first record with that key");
      CHECK(curpos == rp[want] + 8 + rklen[want], "C11(1b): descriptor is left at the start of that record's data");
#if R == 2
      if (want == 0 && key_is(1)) WITNESS("duplicate_key_first_wins");
      if (want == 1 && (rh[0] & 255) == (rh[1] & 255) && ((rh[0] >> 8) % 4) == ((rh[1] >> 8) % 4)) WITNESS("found_after_probing_past_collision");
      if (want == 1 && rh[0] == rh[1]) WITNESS("found_behind_equal_hash");
#endif
      WITNESS("found");
    }
    if (r == 0) {
#if R >= 1
      if (rh[0] == ref_hash(qkey, qlen)) WITNESS("absent_but_hash_equal");
#endif
      WITNESS("absent");
    }
  }
}

#elif MODE == 2 /* ------------------------------------------------------- MODE 2: cdb_bread */
#define LMAX 8
#define TAPE (LMAX + 3)
unsigned char src[LMAX];
unsigned int want_len, avail;      /* bytes asked for; bytes the file still has */
unsigned char tape[TAPE];          /* per read: 0 EINTR, 255 error, k: min(k,len,available) bytes (0 at EOF) */
static unsigned int ncalls, srcpos, harderr, eof;

void sym_inputs(void)
{
#ifdef REPLAY
#include "replay_inputs.inc"
#else
  SYM_ARR(src); SYM(want_len); SYM(avail); SYM_ARR(tape);
#endif
}

ssize_t vf_read(int fd, void *buf, size_t len)
{
  unsigned int t, w, i;
  CHECK(fd == FD, "cdb_bread reads the descriptor it was given");
  CHECK(ncalls < TAPE, "tape long enough (harness sizing)");
  ASSUME(ncalls < TAPE);
  t = tape[ncalls++];
  if (t == 0) { errno = EINTR; return -1; }
  if (t == 255) { harderr = 1; errno = EIO; return -1; }
  if (srcpos >= avail) { eof = 1; return 0; }
  w = t; if (w > len) w = (unsigned int) len; if (w > avail - srcpos) w = avail - srcpos;
  for (i = 0; i < LMAX; ++i) { if (i >= w) break; ((unsigned char *) buf)[i] = src[srcpos++]; }
  return (ssize_t) w;
}
off_t vf_lseek(int fd, off_t off, int whence) { return off; }

void vmain(void)
{
  char dst[LMAX];
  unsigned int i, nz = 0;
  int r;
  sym_inputs();
  ASSUME(want_len <= LMAX && avail <= LMAX);
  for (i = 0; i < TAPE; ++i) if (tape[i] == 0) ++nz;
  ASSUME(nz <= 1);
  r = cdb_bread(FD, dst + (LMAX - want_len), (int) want_len);       /* destination ends at the end of dst */
  CHECK(r == 0 || r == -1, "C11(1b): cdb_bread returns 0 or -1");
  if (r == 0) {
    CHECK(srcpos == want_len, "C11(1b): cdb_bread consumes exactly len bytes");
    for (i = 0; i < LMAX; ++i) { if (i >= want_len) break; CHECK((unsigned char) dst[LMAX - want_len + i] == src[i], "C11(1b): cdb_bread delivers the file's bytes in order"); }
    if (ncalls >= 3 && nz == 1) WITNESS("assembled_from_short_reads_and_eintr");
    WITNESS("complete");
  } else {
    CHECK(harderr || eof, "C11(1b): -1 only after a read error or a premature end of file");
    if (eof) { CHECK(errno == EIO, "truncated database is reported as EIO"); WITNESS("truncated"); }
    if (harderr) WITNESS("read_error");
  }
}

#else /* ------------------------------------------------------------ MODE 1: corrupt file */
#ifndef QL
#define QL 2
#endif
#ifndef NB
#define NB 40
#endif
unsigned char bytes[NB];         /* whatever the file returns, in the order it is read */
unsigned int nbytes;             /* truncated after this many bytes */
unsigned char qkey[QL ? QL : 1];
unsigned int fail_at;
static unsigned int served, ncalls, failed, truncated;

void sym_inputs(void)
{
#ifdef REPLAY
#include "replay_inputs.inc"
#else
  SYM_ARR(bytes); SYM(nbytes); SYM_ARR(qkey); SYM(fail_at);
#endif
}

static int inject(void) { ++ncalls; if (fail_at && ncalls == fail_at) { failed = 1; errno = EIO; return 1; } return 0; }

/* contract of cdb_bread (MODE 2): exactly len bytes or -1; a file that ends early is -1 */
int cdb_bread(int fd, char *buf, int len)
{
  int i;
  CHECK(fd == FD, "cdb_seek reads the database descriptor");
  CHECK(len >= 0 && len <= 32, "cdb_seek reads 8 bytes or at most 32 key bytes at a time");
  if (inject()) return -1;
  if ((unsigned int) len > nbytes - served) { truncated = 1; errno = EIO; return -1; }
  for (i = 0; i < 32; ++i) {
    if (i >= len) break;
    buf[i] = (char) bytes[served++];                     /* a write outside the caller's buffer is a cbmc/ASan failure */
  }
  return 0;
}

off_t vf_lseek(int fd, off_t off, int whence)
{
  CHECK(fd == FD && whence == SEEK_SET, "cdb_seek positions the database descriptor absolutely");
  if (inject()) return (off_t) -1;
  CHECK(off >= 0 && off <= (off_t) 0xffffffffUL + 8 * (off_t) 0xffffffffUL, "C11(1b): seek offsets are computed without wrapping below zero");
  return off;
}

void vmain(void)
{
  uint32 dlen = 0;
  char *k;
  int r;
  unsigned int i;
  sym_inputs();
  ASSUME(nbytes <= NB);
#ifdef VERIF_CBMC
  { static char kstore[QL ? QL : 1]; k = kstore; }
#else
  k = (char *) malloc(QL ? QL : 1);
#endif
  for (i = 0; i < QL; ++i) k[i] = (char) qkey[i];
  r = cdb_seek(FD, k, QL, &dlen);
  CHECK(r == -1 || r == 0 || r == 1, "C11/C20: on any file contents cdb_seek returns -1, 0 or 1");
  if (r == 1) WITNESS("corrupt_file_can_still_answer_found");
  if (r == 0) WITNESS("absent");
  if (r == -1 && !failed) { CHECK(truncated, "-1 only after an I/O error or a premature end of file"); WITNESS("truncated_file_is_an_error"); }
  if (r == -1 && failed) WITNESS("io_error");
}
#endif
