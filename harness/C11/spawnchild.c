/* C11 (4) - qmail-lspawn.c spawn(), child branch (fork() == 0), with the looked-up record
 * `nughde` symbolic: NL arbitrary bytes (NULs anywhere).  Real code: spawn() of
 * qmail-lspawn.c, prot.c, scan_ulong.c, byte_chr.c, error_temp.c, report().
 * nughde_get() is cut (obligation nughde_get) and replaced by a stub that installs the bytes.
 *
 * Oracle (qmail-lspawn.8, qmail-local.8 synopsis, qmail-users.9 field list
 * user:uid:gid:homedir:dash:ext, property text):
 *  - bin/qmail-local is executed only with argv = { bin/qmail-local, --, user, homedir, local,
 *    dash, ext, domain, sender, defaultdelivery, 0 } taken from the six NUL-terminated fields;
 *  - before that, exactly: setgroups(1,{gid}), setgid(gid), setuid(uid) - in this order - with
 *    gid/uid the decimal values of fields 3 and 2, and every one of them succeeded;
 *  - never with uid 0: refused with QLX_ROOT before execv;
 *  - fewer than six fields, or any failing step: no exec, exit with a QLX_* code that
 *    report() turns into 'Z' (only a permanent execv error may give 'D'); an empty local
 *    part is the trash address: exit 0 without any lookup. */
#include "verif.h"
#include <errno.h>
#include "gen_qmail-lspawn.c"

#ifndef NL
#define NL 12
#endif
#ifndef LL
#define LL 2
#endif
#define DL 2
#define SL 2

unsigned char ng[NL];                 /* the record found for the address */
unsigned char rl[LL ? LL : 1], dm[DL], sn[SL];
unsigned int chdir_fails, fdfail, setfail, exec_errno;

char auto_qmail[] = "/var/qmail";
uid_t auto_uidq;
static char recip[LL + 1 + DL + 1], sender[SL + 1], defdel[] = "./Mailbox";
static char ngstore[NL + 1];
static int looked_up, exited = -1, execd;
static unsigned int nsetgroups, nsetgid, nsetuid, nfd, order_ok = 1;
static gid_t grp0, gid_now; static uid_t uid_now;     /* process starts as root: 0/0 */
static unsigned char rep_first; static unsigned int rep_n;
static substdio ssrep;

void sym_inputs(void)
{
#ifdef REPLAY
#include "replay_inputs.inc"
#else
  SYM_ARR(ng); SYM_ARR(rl); SYM_ARR(dm); SYM_ARR(sn); SYM(chdir_fails); SYM(fdfail); SYM(setfail); SYM(exec_errno);
#endif
}

void nughde_get(char *local)         /* definition cut from the generated copy */
{
  unsigned int i;
  CHECK(local == recip, "the lookup is done for the recipient's local part");
  looked_up = 1;
  for (i = 0; i < NL; ++i) ngstore[i] = (char) ng[i];
  nughde.s = ngstore; nughde.len = NL; nughde.a = NL + 1;
}

int vf_fork(void) { return 0; }
int vf_chdir(const char *d) { CHECK(d == auto_qmail, "chdir to the qmail home"); return chdir_fails ? -1 : 0; }
int fd_move(int to, int from) { ++nfd; return fdfail == nfd ? -1 : 0; }
int fd_copy(int to, int from) { ++nfd; return fdfail == nfd ? -1 : 0; }
int vf_setgroups(size_t n, const gid_t *g)
{
  ++nsetgroups; if (nsetgid || nsetuid) order_ok = 0;
  if (setfail == 1) { errno = EPERM; return -1; }
  CHECK(n == 1, "C11(4): exactly one supplementary group, the user's own gid");
  grp0 = g[0];
  return 0;
}
int vf_setgid(gid_t g) { ++nsetgid; if (nsetgroups != 1 || nsetuid) order_ok = 0; if (setfail == 2) { errno = EPERM; return -1; } gid_now = g; return 0; }
int vf_setuid(uid_t u) { ++nsetuid; if (nsetgroups != 1 || nsetgid != 1) order_ok = 0; if (setfail == 3) { errno = EPERM; return -1; } uid_now = u; return 0; }
uid_t vf_getuid(void) { return uid_now; }
uid_t inituid(char *u) { return 0; }
gid_t initgid(char *g) { return 0; }

/* ---- reference: split the record at its NULs */
static int fstart[6], nfields;
static void ref_split(void)
{
  unsigned int i; int start = 0;
  nfields = 0;
  for (i = 0; i < NL; ++i) if (ng[i] == 0) { if (nfields < 6) fstart[nfields] = start; ++nfields; start = (int) i + 1; }
}
static int str_is(const char *a, const unsigned char *b)     /* b is NUL-terminated inside ng */
{
  unsigned int i;
  for (i = 0; i < NL + 1; ++i) { if ((unsigned char) a[i] != b[i]) return 0; if (!b[i]) return 1; }
  return 0;
}
/* decimal value of a field that consists of 1..9 digits, else -1 (the documents say "in decimal"; anything else is not pinned) */
static long ref_decimal(const unsigned char *f)
{
  long v = 0; unsigned int i;
  if (!f[0]) return -1;
  for (i = 0; i < NL; ++i) { if (!f[i]) return v; if (f[i] < '0' || f[i] > '9' || i >= 9) return -1; v = v * 10 + (f[i] - '0'); }
  return -1;
}

int vf_execv(const char *path, char *const argv[])
{
  long u, g; unsigned int i;
  execd = 1;
  ref_split();
  CHECK(looked_up, "C11(4): the user is looked up before the delivery starts");
  CHECK(strcmp(path, "bin/qmail-local") == 0 && strcmp(argv[0], "bin/qmail-local") == 0 && strcmp(argv[1], "--") == 0, "C11(4): runs bin/qmail-local --");
  CHECK(nfields >= 6, "C11(4): no delivery on a record with fewer than six fields");
  if (nfields >= 6) {
    CHECK(str_is(argv[2], ng + fstart[0]), "C11(4): argv user = field 1");
    CHECK(str_is(argv[3], ng + fstart[3]), "C11(4): argv homedir = field 4");
    CHECK(str_is(argv[5], ng + fstart[4]), "C11(4): argv dash = field 5");
    CHECK(str_is(argv[6], ng + fstart[5]), "C11(4): argv ext = field 6");
    u = ref_decimal(ng + fstart[1]); g = ref_decimal(ng + fstart[2]);
    if (u >= 0) CHECK(uid_now == (uid_t) u, "C11(4): runs under the uid of field 2");
    if (g >= 0) CHECK(gid_now == (gid_t) g && grp0 == (gid_t) g, "C11(4): gid and the only supplementary group are field 3");
  }
  CHECK(argv[4] == recip, "C11(4): argv local = the recipient's local part");
  for (i = 0; i < LL; ++i) CHECK((unsigned char) recip[i] == rl[i], "local part unchanged");
  CHECK(recip[LL] == 0, "local part ends at the @");
  CHECK(argv[7] == recip + LL + 1 && argv[8] == sender && argv[9] == defdel && argv[10] == 0, "C11(4): argv domain, sender, defaultdelivery, end");
  CHECK(order_ok && nsetgroups == 1 && nsetgid == 1 && nsetuid == 1 && setfail == 0,
        "C11(4): setgroups, setgid, setuid - each once, in this order, all successful - before qmail-local starts");
  CHECK(grp0 == gid_now, "C11(4): supplementary group == gid");
  CHECK(uid_now != 0, "C11(4): qmail-local is never started as root");
  CHECK(nfd == 3, "descriptors 0, 1, 2 are set up");
  if (nfields > 6) WITNESS("exec_record_with_trailing_bytes");
  WITNESS("exec_qmail_local");
  if (exec_errno) { errno = exec_errno == 1 ? ENOENT : EAGAIN; return -1; }
  PATH_END();
#ifdef VERIF_CBMC
  __CPROVER_assume(0);
#endif
  return -1;
}

int ideal_getc(substdio *s) { return -1; }
int ideal_putc(substdio *s, unsigned char c) { if (!rep_n) rep_first = c; ++rep_n; return 0; }
int ideal_flush(substdio *s) { return 0; }

void vf__exit(int status)
{
  exited = status;
  ref_split();
  if (LL == 0) { CHECK(status == 0 && !looked_up && !nsetuid, "empty local part: trash address, exit 0 at once"); WITNESS("trash_address"); }
  else {
    CHECK(status == QLX_USAGE || status == QLX_SYS || status == QLX_ROOT || status == QLX_EXECSOFT || status == QLX_EXECHARD,
          "C11(4): the child gives up with a QLX code");
    if (status == QLX_ROOT) {
      CHECK(nsetuid == 1 && uid_now == 0 && !execd, "C11(4): QLX_ROOT exactly when the record's uid is 0, before execv");
      WITNESS("refused_root_113");
    }
    if (status == QLX_EXECHARD) { CHECK(execd && exec_errno == 1, "only a permanent execv error is a hard failure"); WITNESS("exec_failed_hard"); }
    if (status == QLX_EXECSOFT) { CHECK(execd && exec_errno == 2, "temporary execv error"); WITNESS("exec_failed_soft"); }
    if (status == QLX_USAGE && nfields < 6 && !chdir_fails) WITNESS("short_record_112");
    if (status == QLX_USAGE && setfail) WITNESS("setid_failed_112");
    if (status == QLX_SYS) { CHECK(fdfail >= 1 && fdfail <= 3, "QLX_SYS only when a descriptor move failed"); WITNESS("fd_failed_118"); }
    if (!execd) CHECK(nfields < 6 || chdir_fails || fdfail || setfail || uid_now == 0, "C11(4): a complete record for a non-root user is delivered, not refused");
    if (status != QLX_EXECHARD) {
      report(&ssrep, status << 8, "", 0);
      CHECK(rep_n >= 1 && rep_first == 'Z', "C11: lookup / parse / privilege failures are reported as Z (deferred), never D");
    }
  }
  PATH_END();
#ifdef VERIF_CBMC
  __CPROVER_assume(0);
#endif
}

void vmain(void)
{
  unsigned int i;
  int f;
  sym_inputs();
  ASSUME(setfail <= 3 && exec_errno <= 2 && fdfail <= 4);
#ifdef UIDTPL
  /* template: record  a NUL <10 symbolic digits> NUL 1 NUL / NUL NUL NUL  (NL = 19): uid values
   * that only fit in 64 bits (e.g. 4294967296) are inside this family; the uid the process ends
   * up with is what setuid() makes of them, and it must never be 0 when qmail-local starts */
  ng[0] = 'a'; ng[1] = 0;
  for (i = 2; i < 12; ++i) ASSUME(ng[i] >= '0' && ng[i] <= '9');
  ng[12] = 0; ng[13] = '1'; ng[14] = 0; ng[15] = '/'; ng[16] = 0; ng[17] = 0; ng[18] = 0;
#endif
  for (i = 0; i < LL; ++i) { ASSUME(rl[i] != 0); recip[i] = (char) rl[i]; }
  recip[LL] = '@';
  for (i = 0; i < DL; ++i) { ASSUME(dm[i] != 0); recip[LL + 1 + i] = (char) dm[i]; }
  recip[LL + 1 + DL] = 0;
  for (i = 0; i < SL; ++i) sender[i] = (char) sn[i];
  sender[SL] = 0;
  aliasempty = defdel;
  f = spawn(5, 6, sender, recip, LL);
  CHECK(0, "the child branch of spawn() never returns");
}
