/* qmtp_template.h - template family for qmail-qmtpd (DESIGN C07 "Bounds"): a concrete valid
 * message and sender, then a recipients section whose length digits, separators, first and
 * last payload byte and terminators are symbolic around L concrete filler bytes:
 *
 *   "1:\n,"  "0:,"  D D S  D D S  P a...a P  T T            D,S,P,T symbolic (<= 10 bytes)
 *
 * e.g. "13:" "10:" "xaaaaaaaay" ",," (one 10-byte recipient), or - the malformed inner
 * length of the 2022 getlen() fix - "14:" ";:" "<11 bytes>" ",,".  The claim of a template
 * query covers exactly the inputs that match its template. */
#ifndef L
#define L 0
#endif
#define N (15 + L)
static void template_fill(unsigned char *b)
{
  unsigned int p = 0, i;
  b[p++] = '1'; b[p++] = ':'; b[p++] = '\n'; b[p++] = ',';
  b[p++] = '0'; b[p++] = ':'; b[p++] = ',';
  p += 6;                                   /* two length fields with their separators */
  for (i = 0; i < L; ++i) { if (i != 0 && i != L - 1) b[p] = 'a'; ++p; }
  p += 2;                                   /* terminators */
}
