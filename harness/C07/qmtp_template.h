/* qmtp_template.h - template families for qmail-qmtpd (DESIGN C07 "Bounds"): a concrete,
 * valid frame with the symbolic bytes placed where the decisions are made.  The claim of a
 * template query covers exactly the connections that match its template (all values of the
 * symbolic bytes '?').
 *
 * TEMPLATE 1, filler TL:   1:\n,  0:,  ???  ???  ? a..a ?  ??
 *     recipients section: two length fields with their separators, first and last payload
 *     byte and both terminators symbolic (<= 10 bytes) around TL-2 filler bytes; contains
 *     e.g. "13:" "10:" "xaaaaaaaay" ",," and - the malformed inner length behind the fix
 *     ca6f55f - "14:" ";:" "<11 bytes>" ",,"  (TL = 10).
 * TEMPLATE 2, TB:          TB:  ?*TB  ,  1:s,  3:0:,,
 *     message: mode byte and TB-1 body bytes symbolic (CR LF decoding, databytes).
 * TEMPLATE 3, TS:          1:\n,  ??  ?*TS  ?  5:2:rc,,
 *     sender: length digit, separator, TS bytes and terminator symbolic (NUL in the sender).
 * TEMPLATE 4:             1:\n,  0:,  8:  1:?,  1:?,  ,
 *     two one-byte recipients (NUL or not), independent rcpthosts verdicts: reply order.
 * TEMPLATE 5, AL:         1:\n,  0:,  BIG:  AL:  ? a..a ?  ,  ,
 *     one recipient of AL = 997..1000 bytes (first and last byte symbolic): the 1000-byte
 *     limit, with and without the 2-byte RELAYCLIENT suffix.
 * TEMPLATE 6, AL:         1:\n,  AL:  ? a..a ?  ,  3:0:,,
 *     sender of AL = 999, 1000 bytes. */
#if TEMPLATE == 1
#ifndef TL
#define TL 0
#endif
#define N (15 + TL)
static void template_fill(unsigned char *b)
{
  unsigned int p = 0, i;
  b[p++] = '1'; b[p++] = ':'; b[p++] = '\n'; b[p++] = ',';
  b[p++] = '0'; b[p++] = ':'; b[p++] = ',';
  p += 6;                                   /* two length fields with their separators */
  for (i = 0; i < TL; ++i) { if (i != 0 && i != TL - 1) b[p] = 'a'; ++p; }
  p += 2;                                   /* terminators */
}
#elif TEMPLATE == 2
#ifndef TB
#define TB 3
#endif
#define N (TB + 13)
static void template_fill(unsigned char *b)
{
  unsigned int p = 0;
  b[p++] = '0' + TB; b[p++] = ':';
  p += TB;
  b[p++] = ',';
  b[p++] = '1'; b[p++] = ':'; b[p++] = 's'; b[p++] = ',';
  b[p++] = '3'; b[p++] = ':'; b[p++] = '0'; b[p++] = ':'; b[p++] = ','; b[p++] = ',';
}
#elif TEMPLATE == 3
#ifndef TS
#define TS 2
#endif
#define N (TS + 15)
static void template_fill(unsigned char *b)
{
  unsigned int p = 0;
  b[p++] = '1'; b[p++] = ':'; b[p++] = '\n'; b[p++] = ',';
  p += 2 + TS + 1;
  b[p++] = '5'; b[p++] = ':'; b[p++] = '2'; b[p++] = ':'; b[p++] = 'r'; b[p++] = 'c'; b[p++] = ','; b[p++] = ',';
}
#elif TEMPLATE == 4
#define N 18
static void template_fill(unsigned char *b)
{
  static const char t[] = "1:\n,0:,8:1:?,1:?,,";
  unsigned int p;
  for (p = 0; p < N; ++p) if (t[p] != '?') b[p] = (unsigned char) t[p];
}
#elif TEMPLATE == 5 || TEMPLATE == 6
#ifndef AL
#define AL 1000
#endif
#define MAXR 2                              /* the frame is concrete: one recipient */
#define DIGITS(x) ((x) >= 1000 ? 4 : (x) >= 100 ? 3 : (x) >= 10 ? 2 : 1)
static unsigned int put_num(unsigned char *b, unsigned int p, unsigned int x)
{
  if (x >= 1000) b[p++] = '0' + (x / 1000) % 10;
  if (x >= 100) b[p++] = '0' + (x / 100) % 10;
  if (x >= 10) b[p++] = '0' + (x / 10) % 10;
  b[p++] = '0' + x % 10;
  return p;
}
#if TEMPLATE == 5
#define BIG (DIGITS(AL) + 1 + AL + 1)
#define N (7 + DIGITS(BIG) + 1 + BIG + 1)
static void template_fill(unsigned char *b)
{
  unsigned int p = 0, i;
  b[p++] = '1'; b[p++] = ':'; b[p++] = '\n'; b[p++] = ',';
  b[p++] = '0'; b[p++] = ':'; b[p++] = ',';
  p = put_num(b, p, BIG); b[p++] = ':';
  p = put_num(b, p, AL); b[p++] = ':';
  for (i = 0; i < AL; ++i) { if (i != 0 && i != AL - 1) b[p] = 'a'; ++p; }
  b[p++] = ','; b[p++] = ',';
}
#else
#define N (4 + DIGITS(AL) + 1 + AL + 1 + 6)
static void template_fill(unsigned char *b)
{
  unsigned int p = 0, i;
  b[p++] = '1'; b[p++] = ':'; b[p++] = '\n'; b[p++] = ',';
  p = put_num(b, p, AL); b[p++] = ':';
  for (i = 0; i < AL; ++i) { if (i != 0 && i != AL - 1) b[p] = 'a'; ++p; }
  b[p++] = ',';
  b[p++] = '3'; b[p++] = ':'; b[p++] = '0'; b[p++] = ':'; b[p++] = ','; b[p++] = ',';
}
#endif
#endif
