/* C07(3) - qmail-smtpd.c smtp_data(): what is said after DATA, against what was queued.
 * Encoded from /repo: qmail-smtpd.c smtp_data, put, acceptmessage, out, flush, err_*;
 * fmt_ulong.c.
 * Cut (DESIGN C07 "Bounds"):
 *   blast()    -> stub that hands NB body bytes to the real put() and reports an arbitrary
 *                 hop count h (blast's own counting/decoding is obligation C05/C07 blast);
 *   qmail_*    -> observing stubs implementing the contract proved in qmail_unit:
 *                 the failure flag is sticky (qmail_fail, or a failed write inside
 *                 qmail_put), qmail_close returns "" iff the flag is clear and qmail-queue
 *                 exits 0, otherwise a D... or Z... string;
 *   received() -> marker.
 * Reference (qmail-smtpd(8), property C07): 100 or more Received/Delivered-To fields =>
 * nothing queued, permanent reply; more than databytes body bytes (databytes != 0) =>
 * nothing queued, permanent reply 552; qmail-queue failure D => 554, Z => 451;
 * 250 iff queued, and then the queue got Received + exactly the body, the MAIL sender and
 * the accepted recipients; a message inside both limits is never failed by the daemon. */
#include "verif.h"
void blast();
#include "gen_qmail-smtpd.c"

#ifndef DB
#define DB 0            /* control/databytes, concrete per query */
#endif
#define NBMAX 4
#define RMAX 6
#define MFMAX 3

/* ---- inputs */
unsigned char seen_in;                 /* seenmail before DATA */
char mf[MFMAX + 1];                    /* sender of the transaction */
unsigned char rbytes[RMAX];            /* rcptto contents */
unsigned int rlen;
unsigned char body[NBMAX]; unsigned int nb;   /* decoded body bytes blast hands to put() */
int h_in;                              /* hop count reported by blast */
unsigned char open_fails;
unsigned char qstatus;                 /* qmail-queue outcome: 0 exit 0, 1 permanent, 2 temporary */
unsigned int wfail_at;                 /* index of the qmail_put call whose write fails (none if large) */

void sym_inputs(void)
{
#ifdef REPLAY
#include "replay_inputs.inc"
#else
  SYM_FEED();
  SYM(seen_in); SYM_ARR(mf); SYM_ARR(rbytes); SYM(rlen); SYM_ARR(body); SYM(nb); SYM(h_in);
  SYM(open_fails); SYM(qstatus); SYM(wfail_at);
#endif
}

/* ---- observed */
static int n_open, n_close, n_from, n_received, n_blast;
static int g_flagerr, daemon_fail_calls, fail_before_close;
static unsigned char msg[NBMAX + 2]; static unsigned int msgn;     /* body bytes put before qmail_from */
static unsigned char env[RMAX + 2]; static unsigned int envn;      /* bytes put after qmail_from */
static int from_matches, order_bad;
static unsigned int nput;
static char *close_result;
static char codes[4][3]; static unsigned int nlines, col;
static int flushed_at_354;

int ideal_putc(substdio *s, unsigned char c)
{
  CHECK(s == &ssout, "replies go to the SMTP connection");
  if (nlines < 4 && col < 3) codes[nlines][col] = (char) c;
  ++col;
  if (c == '\n') { ++nlines; col = 0; }
  return 0;
}
int ideal_flush(substdio *s) { return 0; }
int ideal_getc(substdio *s) { CHECK(0, "smtp_data reads only through blast (cut)"); return -1; }

ssize_t timeoutread(int t, int fd, char *buf, size_t len) { CHECK(0, "not reached"); return 0; }
ssize_t timeoutwrite(int t, int fd, const void *buf, size_t len) { CHECK(0, "not reached"); return 0; }
void vf__exit(int s)
{
  CHECK(0, "smtp_data does not exit");
  PATH_END();
#ifdef VERIF_CBMC
  __CPROVER_assume(0);
#endif
}
time_t vf_time(time_t *t) { return 1000000000; }

int qmail_open(struct qmail *qq)
{
  CHECK(qq == &qqt, "the daemon's queue connection");
  ++n_open;
  if (open_fails) return -1;
  g_flagerr = 0;
  return 0;
}
unsigned long qmail_qp(struct qmail *qq) { return 4242; }
void qmail_fail(struct qmail *qq)
{
  CHECK(n_open == 1 && !open_fails, "qmail_fail on an open connection");
  g_flagerr = 1; ++daemon_fail_calls;
  if (!n_close) fail_before_close = 1;
}
void qmail_put(struct qmail *qq, char *s, unsigned int len)
{
  unsigned int i;
  CHECK(n_open == 1 && !open_fails && !n_close, "qmail_put on an open connection");
  if (nput++ == wfail_at) g_flagerr = 1;           /* a write to qmail-queue failed */
  if (!n_received) order_bad = 1;                 /* Received goes first */
  for (i = 0; i < RMAX + 2; ++i) {
    if (i >= len) break;
    if (!n_from) { if (msgn < sizeof msg) msg[msgn] = (unsigned char) s[i]; ++msgn; }
    else { if (envn < sizeof env) env[envn] = (unsigned char) s[i]; ++envn; }
  }
  CHECK(len <= RMAX + 1, "harness sizing");
}
void qmail_from(struct qmail *qq, char *s)
{
  unsigned int i;
  CHECK(n_open == 1 && !open_fails && !n_close, "qmail_from on an open connection");
  ++n_from;
  from_matches = 1;
  for (i = 0; i <= MFMAX; ++i) { if (s[i] != mf[i]) from_matches = 0; if (!mf[i]) break; }
}
void qmail_to(struct qmail *qq, char *s) { CHECK(0, "qmail-smtpd passes recipients as a block"); }
char *qmail_close(struct qmail *qq)
{
  CHECK(n_open == 1 && !open_fails && !n_close, "qmail_close on an open connection");
  ++n_close;
  if (qstatus == 1) close_result = "Dqq permanent problem (#5.3.0)";
  else if (qstatus == 2 || g_flagerr) close_result = "Zqq temporary problem (#4.3.0)";
  else close_result = "";
  return close_result;
}
void received(struct qmail *qq, char *protocol, char *local, char *rip, char *rhost, char *rinfo, char *helo)
{
  CHECK(n_open == 1 && !open_fails && msgn == 0 && !n_from, "Received line is the first thing written");
  CHECK(protocol[0] == 'S' && protocol[1] == 'M' && protocol[2] == 'T' && protocol[3] == 'P' && !protocol[4], "with SMTP");
  ++n_received;
}

void blast(int *hops)
{
  unsigned int i;
  ++n_blast;
  CHECK(nlines == 1 && codes[0][0] == '3' && codes[0][1] == '5' && codes[0][2] == '4', "354 is sent before the body is read");
  for (i = 0; i < NBMAX; ++i) { if (i >= nb) break; put((char *) &body[i]); }
  *hops = h_in;
}

static int code_is(unsigned int line, const char *c)
{
  return line < nlines && codes[line][0] == c[0] && codes[line][1] == c[1] && codes[line][2] == c[2];
}

void vmain(void)
{
  unsigned int i;
  int toomanyhops, toobig, queued;
  sym_inputs();
  mf[MFMAX] = 0;
  ASSUME(seen_in <= 1 && open_fails <= 1 && qstatus <= 2);
  ASSUME(rlen <= RMAX && nb <= NBMAX);
  ASSUME(h_in >= 0);                               /* a count */
  databytes = DB;
  seenmail = seen_in;
  mailfrom.s = mf; mailfrom.a = sizeof mf; mailfrom.len = MFMAX + 1;
  rcptto.s = (char *) rbytes; rcptto.a = RMAX; rcptto.len = rlen;
  remotehost = remoteip = local = "x"; remoteinfo = 0; fakehelo = 0;

  smtp_data("");

  if (!seen_in || rlen == 0) {
    /* C08: DATA needs MAIL and an accepted RCPT */
    CHECK(n_open == 0, "C08: DATA without MAIL or without accepted RCPT opens no queue connection");
    CHECK(nlines == 1 && code_is(0, "503"), "C08: DATA out of sequence is answered 503");
    WITNESS("out_of_sequence");
    return;
  }
  CHECK(n_open == 1, "one queue connection per DATA");
  CHECK(seenmail == 0, "C08: DATA ends the transaction");
  if (open_fails) {
    CHECK(nlines == 1 && code_is(0, "451"), "C07(3): no queue connection => temporary failure, no 354");
    CHECK(!n_blast && !n_close, "nothing is read or queued without a queue connection");
    WITNESS("open_failed");
    return;
  }
  CHECK(n_blast == 1 && n_received == 1 && n_from == 1 && n_close == 1 && !order_bad, "open, Received, body, envelope, close - once each");
  CHECK(nlines == 2 && code_is(0, "354"), "354, then exactly one final reply");
  queued = (close_result[0] == 0);
  toomanyhops = (h_in >= 100);
  toobig = (DB != 0 && nb > DB);

  CHECK(code_is(1, "250") == queued, "C07(3): 250 iff qmail_close reported success");
  if (queued) {
    CHECK(!g_flagerr, "stub contract");
    CHECK(!toomanyhops, "C07(3): 100 or more Received/Delivered-To fields are never queued");
    CHECK(!toobig, "C07(3): a body over databytes is never queued");
    CHECK(msgn == nb, "C07(3): queued message = Received + exactly the body");
    for (i = 0; i < NBMAX; ++i) { if (i >= nb) break; CHECK(msg[i] == body[i], "C07(3): body bytes unchanged and in order"); }
    CHECK(from_matches, "C07(3): envelope sender is the MAIL sender");
    CHECK(envn == rlen, "C07(3): envelope recipients are exactly the accepted ones");
    for (i = 0; i < RMAX; ++i) { if (i >= rlen) break; CHECK(env[i] == rbytes[i], "C07(3): recipients unchanged and in order"); }
    WITNESS("accepted_250");
  }
  if (toomanyhops) {
    CHECK(fail_before_close, "C07(3): too many hops => the queue connection is failed before it is closed");
    CHECK(code_is(1, "554") || (toobig && code_is(1, "552")), "C07(3): too many hops => permanent 554");
    if (h_in == 100) WITNESS("hops_100");
  }
  if (toobig) {
    CHECK(fail_before_close, "C07(3): body over databytes => the queue connection is failed");
    CHECK(code_is(1, "552") || (toomanyhops && code_is(1, "554")), "C07(3): body over databytes => permanent 552");
    if (nb == DB + 1) WITNESS("one_byte_over");
  }
  if (!toomanyhops && !toobig) {
    CHECK(daemon_fail_calls == 0, "C07(3): a message inside both limits is not failed by the daemon");
    if (!queued) {
      if (close_result[0] == 'D') { CHECK(code_is(1, "554"), "C07(3): permanent queue failure => 554"); WITNESS("queue_permanent"); }
      else { CHECK(code_is(1, "451"), "C07(3): temporary queue failure => 451"); WITNESS("queue_temporary"); }
    }
    if (h_in == 99 && queued && (DB == 0 || nb == DB)) WITNESS("at_both_limits");
  }
  WITNESS("done");
}
