/* C07 (size limit) - qmail-smtpd.c blast() + put(): the databytes accounting against the message that is actually
 * handed to the queue.  qmail-smtpd(8) / qmail-control(5) databytes: "Maximum number of bytes allowed in a message ... If a
 * message exceeds this limit, qmail-smtpd returns a permanent error code"; the count is taken on the stored (decoded) message.
 * With the limit DB in force the transaction must be marked failed (qmail_fail) iff more than DB bytes were handed over -
 * however the decoder groups the bytes it hands over (byte by byte today).  Copy of blast_hops.c with the limit switched on.
 * ---- original header of blast_hops.c:
 * C07 (hop counting, DESIGN C07 "Bounds" (i)) - qmail-smtpd.c blast(): the hop counter
 * against the message that is actually stored.
 * Encoded from /repo: qmail-smtpd.c blast, put (real), qmail_put cut to a recorder.
 * Reference (qmail-smtpd(8): "rejects any message with 100 or more Received or Delivered-To
 * header fields"): in the *stored* message (after CR LF -> LF and dot removal), the number
 * of lines before the first empty line that start with "received" or "delivered" in any
 * mixture of case.  (Prefix match, as lenient as the code: "ReceivedX" counts for both.)
 * NOT part of the default plan: enable with C07_BLAST_HOPS=1 (see plan.py). */
#include "verif.h"
#include "gen_qmail-smtpd.c"

#ifndef N
#define N 12
#endif

unsigned char in[N + 1];

void sym_inputs(void)
{
#ifdef REPLAY
#include "replay_inputs.inc"
#else
  SYM_FEED();
  SYM_ARR(in);
#endif
}

static unsigned int inpos;
static unsigned char outb[N + 2]; static unsigned int outn;

int ideal_getc(substdio *s)
{
  CHECK(s == &ssin, "blast reads the SMTP connection");
  if (inpos >= N) { die_read(); }               /* client gone: saferead() leaves through die_read() */
  return in[inpos++];
}
int ideal_putc(substdio *s, unsigned char c) { return 0; }
int ideal_flush(substdio *s) { return 0; }
ssize_t timeoutread(int t, int fd, char *buf, size_t len) { CHECK(0, "not reached"); return 0; }
ssize_t timeoutwrite(int t, int fd, const void *buf, size_t len) { CHECK(0, "not reached"); return 0; }
#ifndef DB
#define DB 3
#endif
static unsigned int nfail, outn_at_fail;
void qmail_put(struct qmail *qq, char *s, unsigned int len)
{
  unsigned int i;
  CHECK(len >= 1 && len <= N, "a run of the stream is handed over");
  for (i = 0; i < N; ++i) {
    if (i >= len) break;
    if (outn < sizeof outb) outb[outn] = (unsigned char) s[i];
    ++outn;
  }
}
void qmail_fail(struct qmail *qq) { if (!nfail) outn_at_fail = outn; ++nfail; }
void vf__exit(int st)
{
  WITNESS("aborted");
  PATH_END();
#ifdef VERIF_CBMC
  __CPROVER_assume(0);
#endif
}

static unsigned char lc(unsigned char c) { return (c >= 'A' && c <= 'Z') ? (unsigned char) (c + 32) : c; }
static int starts(unsigned int at, const char *w, unsigned int wl)
{
  unsigned int i;
  for (i = 0; i < 9; ++i) { if (i >= wl) break; if (at + i >= outn || lc(outb[at + i]) != (unsigned char) w[i]) return 0; }
  return 1;
}

void vmain(void)
{
  int hops; unsigned int i, want = 0, bol = 1, inhdr = 1;
  sym_inputs();
  databytes = DB; bytestooverflow = databytes + 1;      /* what smtp_data() sets up before it calls blast() */
  blast(&hops);
  CHECK((nfail >= 1) == (outn >= DB + 1), "C07: the transaction is marked failed iff the stored message is longer than databytes");
  if (nfail) CHECK(outn_at_fail <= DB, "C07: the failure is flagged before byte databytes+1 is handed to the queue");
  if (nfail) WITNESS("over_limit");
  if (!nfail && outn == DB) WITNESS("exactly_at_limit");
  CHECK(outn <= N, "stored message is not longer than what was sent");
  for (i = 0; i < N; ++i) {
    if (i >= outn) break;
    if (bol && inhdr) {
      if (outb[i] == '\n') inhdr = 0;
      else if (starts(i, "received", 8) || starts(i, "delivered", 9)) ++want;
    }
    bol = (outb[i] == '\n');
  }
  CHECK((unsigned int) hops == want, "C07: blast counts the Received/Delivered-To header fields of the message it stores");
  if (want == 1) WITNESS("one_hop");
  WITNESS("complete");
}
