/* C07(2a) - qmail-qmqpd.c main(): one QMQP request, every byte string of N bytes, then EOF.
 * Encoded from /repo: qmail-qmqpd.c (main, getlen, getbyte, getcomma, getbuf, identify,
 * saferead, resources, badproto), fmt_ulong.c, fmt_str.c, byte_chr.c.
 * Cut: qmail_open/put/from/to/fail/close -> observing stubs with the contract proved in
 *      qmail_unit (sticky failure flag; close returns "" iff flag clear and qmail-queue
 *      exits 0, else D.../Z...);  received() -> marker (received_safe).
 * Streams: ideal substdio; a read goes through the daemon's own saferead() to the read()
 * stub, which returns the next request byte, or 0 (client gone) after the last one.
 *
 * Reference (QMQP: the request is one netstring whose content is the concatenation of
 * netstrings  message, sender, recipient... ; a netstring is DIGITS ':' bytes ',' ;
 * the answer is one netstring whose first byte is K (accepted), Z (temporary) or D
 * (permanent); property C07):
 *   - K  <=> the queue connection was closed successfully; then the message stream is
 *     Received + exactly the message bytes, the envelope exactly sender and recipients;
 *   - complete but malformed frame (non-digit in a length, missing ':' or ',', inner
 *     netstrings not tiling the outer one, no sender) => no K, nothing queued, exit 100;
 *   - NUL in an address (or an address of 1000 bytes or more) => D, nothing queued;
 *   - queue failure => its D/Z class; no queue connection / no home directory => exit 111;
 *   - client gone before the frame is complete => nothing queued, no K (exit 0; a daemon
 *     that already saw a framing error may also have left with 100).
 * Not demanded (netstring text forbids them, most parsers take them; both accepted):
 *   empty or zero-padded length fields are read as numbers; zero recipients. */
#include "verif.h"
#include "gen_qmail-qmqpd.c"

#ifdef TEMPLATE
#include "qmqp_template.h"
#endif
#ifndef N
#define N 12
#endif
#ifndef MAXR
#define MAXR (N / 3 + 1)
#endif
#define AMAX (N + 1)

unsigned char in[N + 1];
unsigned char qstatus;          /* qmail-queue outcome: 0 exit 0, 1 permanent, 2 temporary */
unsigned int wfail_at;          /* index of the qmail_put/from/to call whose write fails */
unsigned char open_fails, chdir_fails;

void sym_inputs(void)
{
#ifdef REPLAY
#include "replay_inputs.inc"
#else
  SYM_FEED();
  SYM_ARR(in); SYM(qstatus); SYM(wfail_at); SYM(open_fails); SYM(chdir_fails);
#endif
}

char auto_qmail[] = "/var/qmail";

/* ---- observed (everything is compared on the fly against the reference parse R, which
 * is computed from the input before the daemon runs: the _exit stub is inlined at several
 * hundred unrolled call sites and must stay a handful of scalar comparisons) */
static unsigned int inpos;
static int n_open, n_close, n_from, n_received, order_bad;
static int g_flagerr, daemon_fail_calls;
static unsigned int nwr;
static unsigned int mlen; static int msg_bad;
static int from_bad, to_bad; static unsigned int n_to;
static int bad_addr, too_long;
static char *close_result = "?";
/* reply stream: netstring recogniser */
static int rs, rbad, rfirst; static unsigned long rval; static unsigned int rdigits, rleft, nrep; static char rclass[2];
static unsigned int outcount, flushed;

/* ---- reference parser */
struct ref {
  int status;                                  /* 0 truncated, 1 malformed, 2 well-formed */
  int huge;                                    /* some length field is absurdly large */
  unsigned int end;                            /* first byte after the request */
  unsigned int moff, mlen, soff, slen, nr, roff[MAXR], rlen[MAXR];
};
static struct ref R;

/* DIGITS ':' in in[p..lim): 0 ok, 1 non-digit, 2 ran out */
static int ref_len(unsigned int p, unsigned int lim, unsigned long *val, unsigned int *next)
{
  unsigned long v = 0; unsigned int k;
  for (k = 0; k <= N; ++k) {
    unsigned char c;
    if (p >= lim) return 2;
    c = in[p++];
    if (c == ':') { *val = v; *next = p; return 0; }
    if (c < '0' || c > '9') return 1;
    /* an absurd length may be refused as resource trouble (exit 111) as soon as it is seen */
    if (v <= 200000000UL) v = v * 10 + (unsigned long) (c - '0');
    if (v > 200000000UL) R.huge = 1;
  }
  return 2;
}

/* one inner netstring in in[*q..end): returns 0 and advances, or 1 */
static int ref_inner(unsigned int *q, unsigned int end, unsigned int *off, unsigned int *len)
{
  unsigned long l; unsigned int p;
  if (ref_len(*q, end, &l, &p) != 0) return 1;
  if (l >= end - p) return 1;                  /* content and ',' must fit */
  if (in[p + l] != ',') return 1;
  *off = p; *len = (unsigned int) l; *q = p + (unsigned int) l + 1;
  return 0;
}

static void ref_parse(void)
{
  unsigned long L; unsigned int p, q, end, k; int st;
  R.status = 0; R.nr = 0;
  st = ref_len(0, N, &L, &p);
  if (st == 1) { R.status = 1; R.end = N; return; }     /* non-digit in the outer length */
  if (st == 2) return;
  if (L >= N - p) return;                                /* frame not complete yet */
  end = p + (unsigned int) L; R.end = end + 1;
  R.status = 1;
  if (in[end] != ',') return;
  q = p;
  if (ref_inner(&q, end, &R.moff, &R.mlen)) return;
  if (ref_inner(&q, end, &R.soff, &R.slen)) return;
  for (k = 0; k < MAXR; ++k) {
    if (q >= end) break;
    if (ref_inner(&q, end, &R.roff[k], &R.rlen[k])) return;
    R.nr = k + 1;
  }
  CHECK(q >= end, "harness sizing: more recipients than MAXR");
  if (q != end) return;
  R.status = 2;
}

static int has_nul(unsigned int off, unsigned int len)
{
  unsigned int k;
  for (k = 0; k < N; ++k) { if (k >= len) break; if (in[off + k] == 0) return 1; }
  return 0;
}

/* ---- streams */
ssize_t vf_read(int fd, void *buf, size_t len)
{
  CHECK(fd == 0 && len >= 1, "request is read from descriptor 0");
  if (inpos >= N) return 0;                    /* client has gone */
  *(unsigned char *) buf = in[inpos++];
  return 1;
}
ssize_t vf_write(int fd, const void *buf, size_t len) { CHECK(0, "write() only through the ideal stream"); return -1; }

int ideal_getc(substdio *s)
{
  char c; ssize_t r;
  CHECK(s == &ssin && s->op == saferead, "input is read through saferead");
  r = saferead(0, &c, 1);
  if (r != 1) return -1;
  return (unsigned char) c;
}

int ideal_putc(substdio *s, unsigned char c)
{
  CHECK(s == &ssout, "replies go to descriptor 1");
  ++outcount;
  switch (rs) {
    case 0:
      if (c >= '0' && c <= '9') { rval = rval * 10 + (c - '0'); ++rdigits; if (rdigits > 4) rbad = 1; }
      else if (c == ':' && rdigits > 0 && rval > 0) { rs = 1; rleft = (unsigned int) rval; rfirst = 1; }
      else rbad = 1;
      break;
    case 1:
      if (rfirst) { if (nrep < 2) rclass[nrep] = (char) c; rfirst = 0; }
      if (--rleft == 0) rs = 2;
      break;
    default:
      if (c == ',') { ++nrep; rs = 0; rval = 0; rdigits = 0; } else rbad = 1;
  }
  return 0;
}
int ideal_flush(substdio *s) { if (s == &ssout) flushed = outcount; return 0; }

/* ---- environment */
void sig_pipeignore(void) {}
void sig_alarmcatch(void (*f)()) {}
unsigned int vf_alarm(unsigned int s) { return 0; }
int vf_chdir(const char *p) { if (chdir_fails) return -1; return 0; }
char *env_get(char *name) { return (char *) 0; }
time_t vf_time(time_t *t) { return 7; }   /* small: fmt_ulong stays inside its unwinding bound */

static void wr(void) { if (nwr++ == wfail_at) g_flagerr = 1; }   /* a write to qmail-queue may fail */

int qmail_open(struct qmail *q)
{
  CHECK(q == &qq, "the daemon's queue connection");
  ++n_open;
  if (open_fails) return -1;
  return 0;
}
unsigned long qmail_qp(struct qmail *q) { return 42; }
void qmail_fail(struct qmail *q) { CHECK(n_open == 1 && !n_close, "qmail_fail on an open connection"); g_flagerr = 1; ++daemon_fail_calls; }
void qmail_put(struct qmail *q, char *s, unsigned int len)
{
  unsigned int i;
  CHECK(n_open == 1 && !open_fails && !n_close, "qmail_put on an open connection");
  if (!n_received || n_from) order_bad = 1;    /* Received first; message before envelope */
  wr();
  for (i = 0; i < N + 1; ++i) {
    if (i >= len) break;
    if (R.status != 2 || mlen >= R.mlen || R.moff + mlen >= N || (unsigned char) s[i] != in[R.moff + mlen]) msg_bad = 1;
    ++mlen;
  }
  CHECK(len <= N, "harness sizing");
}
/* is the C string s exactly in[off..off+len) ?  (never reads s past its NUL) */
static int same_addr(const char *s, unsigned int off, unsigned int len)
{
  unsigned int i;
  for (i = 0; i <= N; ++i) {
    if (i == len) return s[i] == 0;
    if (off + i >= N || (unsigned char) s[i] != in[off + i] || s[i] == 0) return 0;
  }
  return 0;
}
void qmail_from(struct qmail *q, char *s)
{
  CHECK(n_open == 1 && !open_fails && !n_close, "qmail_from on an open connection");
  if (n_from || n_to) order_bad = 1;
  ++n_from; wr();
  if (R.status != 2 || !same_addr(s, R.soff, R.slen)) from_bad = 1;
}
void qmail_to(struct qmail *q, char *s)
{
  CHECK(n_open == 1 && !open_fails && !n_close, "qmail_to on an open connection");
  if (!n_from) order_bad = 1;
  wr();
  if (R.status != 2 || n_to >= R.nr || n_to >= MAXR || !same_addr(s, R.roff[n_to < MAXR ? n_to : 0], R.rlen[n_to < MAXR ? n_to : 0])) to_bad = 1;
  ++n_to;
}
char *qmail_close(struct qmail *q)
{
  CHECK(n_open == 1 && !open_fails && !n_close, "qmail_close on an open connection");
  ++n_close;
  if (qstatus == 1) close_result = "Dqq permanent problem (#5.3.0)";
  else if (qstatus == 2 || g_flagerr) close_result = "Zqq temporary problem (#4.3.0)";
  else close_result = "";
  return close_result;
}
void received(struct qmail *q, char *protocol, char *local, char *rip, char *rhost, char *rinfo, char *helo)
{
  CHECK(n_open == 1 && !open_fails && mlen == 0 && !n_from, "Received line is the first thing written");
  CHECK(protocol[0] == 'Q' && protocol[1] == 'M' && protocol[2] == 'Q' && protocol[3] == 'P' && !protocol[4], "with QMQP");
  CHECK(helo == 0 && rinfo == 0, "no HELO in QMQP; TCPREMOTEINFO unset in this run");
  ++n_received;
}

void vf__exit(int status)
{
  int queued = n_close == 1 && close_result[0] == 0;
  int saidK = nrep >= 1 && rclass[0] == 'K';
  int res_trouble = R.huge || open_fails || chdir_fails;

  /* whatever the input: K iff the queue took the message, at most one reply */
  CHECK(status == 0 || status == 100 || (status == 111 && res_trouble), "C07(2): exit status is 0, 100, or 111 for resource trouble");
  CHECK(saidK == queued && nrep <= 1 && flushed == outcount, "C07(2): K is sent (and flushed) iff the queue connection was closed successfully");
  CHECK(R.status == 2 || !queued, "C07(2): truncated or malformed request => nothing queued");
  CHECK(R.status != 1 || (nrep == 0 && status != 0), "C07(2): complete malformed frame => exit 100, no reply");
  if (R.status == 2 && !res_trouble) {
    CHECK(status == 0 && nrep == 1 && !rbad && rs == 0 && inpos == R.end
          && n_open == 1 && n_received == 1 && n_close == 1 && !order_bad,
          "C07(2): a well-formed request is consumed exactly, handed over in order, and gets one well-formed reply");
    CHECK(bad_addr ? (!queued && rclass[0] == 'D') : (daemon_fail_calls == 0 && rclass[0] == (queued ? 'K' : close_result[0])),
          "C07(2): NUL in an address => D, nothing queued; otherwise the reply class is the queue's verdict");
    CHECK(!queued || (!msg_bad && mlen == R.mlen && n_from == 1 && !from_bad && !to_bad && n_to == R.nr),
          "C07(2): K => queue got Received + exactly the message, the sender and the recipients in order");
  }
  if (R.status == 2 && res_trouble && !R.huge)
    CHECK(status == 111 && nrep == 0 && !queued, "C07(2): no queue connection => exit 111, nothing said");
#if defined(WITNESS_INLINE) || defined(WITNESS_TWIN)
  if (R.status == 0 && status == 0 && n_open == 1 && inpos == N) WITNESS("disconnect_after_open");
  if (R.status == 1 && n_open == 1 && !open_fails) WITNESS("malformed_after_open");
  if (R.status == 2 && res_trouble) WITNESS("resources");
  if (R.status == 2 && !res_trouble && bad_addr && !too_long) WITNESS("nul_in_address");
  if (R.status == 2 && !res_trouble && too_long) WITNESS("address_too_long");
  if (R.status == 2 && !res_trouble && !queued && rclass[0] == 'D' && !bad_addr) WITNESS("queue_permanent");
  if (R.status == 2 && !res_trouble && !queued && rclass[0] == 'Z') WITNESS("queue_temporary");
  if (queued && R.nr >= 1) WITNESS("accepted_K_with_recipient");
  if (queued) WITNESS("accepted_K");
  WITNESS("exit");
#endif
  PATH_END();
#ifdef VERIF_CBMC
  __CPROVER_assume(0);
#endif
}

void vmain(void)
{
  unsigned int i;
  sym_inputs();
  ASSUME(qstatus <= 2 && open_fails <= 1 && chdir_fails <= 1);
#ifdef TEMPLATE
  template_fill(in);
#endif
  ref_parse();
  if (R.status == 2) {
    too_long = R.slen >= 1000;
    for (i = 0; i < MAXR; ++i) { if (i >= R.nr) break; if (R.rlen[i] >= 1000) too_long = 1; }
    bad_addr = too_long || has_nul(R.soff, R.slen);
    for (i = 0; i < MAXR; ++i) { if (i >= R.nr) break; if (has_nul(R.roff[i], R.rlen[i])) bad_addr = 1; }
  }
  qmqpd_main();
  CHECK(0, "qmail-qmqpd leaves only through _exit");
}
