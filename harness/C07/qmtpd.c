/* C07(2b) - qmail-qmtpd.c main(): a QMTP connection of N bytes, then the client goes away.
 * Encoded from /repo: qmail-qmtpd.c (main, getlen, getcomma, saferead, badproto,
 * resources), fmt_ulong.c, fmt_str.c, stralloc_opys.c, stralloc_opyb.c, stralloc_pend.c,
 * byte_copy.c.
 * Cut: qmail_open/put/from/to/fail/close -> observing stubs with the contract proved in
 *      qmail_unit; received() -> marker; rcpthosts() -> arbitrary verdict per call (its
 *      own meaning: C08 rcpthosts_ref); control_*, env_get, sig_*, alarm, chdir, time.
 * Streams: ideal substdio; reads go through the daemon's saferead() to the read() stub.
 *
 * Reference (QMTP; qmail-qmtpd(8) -> qmail-smtpd(8) for rcpthosts/RELAYCLIENT/databytes):
 *   package = netstring(message) netstring(sender) netstring(netstring(recipient)...);
 *   netstring = DIGITS ':' bytes ','; first message byte 10: lines end in LF, body taken
 *   as is; 13: lines end in CR LF, CR LF is stored as LF; anything else is malformed.
 *   One reply netstring per recipient, in order, first byte K (accepted), Z, D.
 *   - a recipient is acceptable iff it has no NUL, it (plus the RELAYCLIENT suffix) is
 *     shorter than 1000 bytes, and RELAYCLIENT is set (suffix appended) or rcpthosts says
 *     yes; every other recipient is answered D;
 *   - K for an acceptable recipient <=> the queue connection closed successfully; then the
 *     queue got Received + exactly the decoded body, the sender, and exactly the acceptable
 *     recipients in order;
 *   - sender with NUL / >= 1000 bytes, or decoded body longer than databytes (!= 0)
 *     => nothing queued, D for every recipient; queue failure => its D/Z class;
 *   - complete but malformed netstring (non-digit in a length, missing ',' , empty
 *     message, bad first byte, recipients not tiling their frame) => exit 100, no K,
 *     nothing queued; no queue connection / rcpthosts trouble => exit 111;
 *   - client gone before the package is complete => nothing queued, no K.
 * Not demanded: empty or zero-padded length fields are read as numbers; a package without
 * recipients gets no reply and is not queued (both accepted); a bare CR in CR LF mode is
 * stored as it is.
 * The connection carries at most one package: once the daemon has closed its queue
 * connection the read() stub reports that the client has gone (so the bytes of in[] behind
 * a complete package are never delivered); several packages per connection are outside. */
#include "verif.h"
#ifdef TEMPLATE
#include "qmtp_template.h"
#endif
#include "gen_qmail-qmtpd.c"

#ifndef N
#define N 13
#endif
#ifndef DB
#define DB 0
#endif
#ifndef MAXR
#define MAXR (N / 3 + 1)
#endif

unsigned char in[N + 1];
unsigned char qstatus;          /* qmail-queue outcome: 0 exit 0, 1 permanent, 2 temporary */
unsigned int wfail_at;          /* index of the qmail_put/from/to call whose write fails */
unsigned char open_fails, init_fails;
unsigned char have_relay;       /* RELAYCLIENT set (to "@r") */
signed char rh[MAXR];           /* verdict of rcpthosts() for recipient i, if asked: 1, 0, -1 */

void sym_inputs(void)
{
#ifdef REPLAY
#include "replay_inputs.inc"
#else
  SYM_ARR(in); SYM(qstatus); SYM(wfail_at); SYM(open_fails); SYM(init_fails); SYM(have_relay); SYM_ARR(rh);
#endif
}

char auto_qmail[] = "/var/qmail";
static char relay_val[] = "@r";
#define RELAYLEN 2

/* ---- reference parse of the first package, computed before the daemon runs */
struct ref {
  int status;                                  /* 0 truncated, 1 malformed, 2 well-formed */
  int huge;
  unsigned int end;
  unsigned int mode, boff, bend, dlen;         /* raw body in[boff..bend), decoded length */
  unsigned int soff, slen, nr, roff[MAXR], rlen[MAXR];
  /* policy */
  int sender_bad, too_big;
  int ok[MAXR]; unsigned int nok, okidx[MAXR];
};
static struct ref R;

static int ref_len(unsigned int p, unsigned int lim, unsigned long *val, unsigned int *next)
{
  unsigned long v = 0; unsigned int k;
  for (k = 0; k <= N; ++k) {
    unsigned char c;
    if (p >= lim) return 2;
    c = in[p++];
    if (c == ':') { *val = v; *next = p; return 0; }
    if (c < '0' || c > '9') return 1;
    /* an absurd length may be refused as resource trouble (exit 111) as soon as it is seen */
    if (v <= 200000000UL) v = v * 10 + (unsigned long) (c - '0');
    if (v > 200000000UL) R.huge = 1;
  }
  return 2;
}

static int has_nul(unsigned int off, unsigned int len)
{
  unsigned int k;
  for (k = 0; k < N; ++k) { if (k >= len) break; if (in[off + k] == 0) return 1; }
  return 0;
}

static void ref_parse(void)
{
  unsigned long L; unsigned int p, q, end, k; int st;
  R.status = 0; R.nr = 0; R.end = N;
  /* message */
  st = ref_len(0, N, &L, &p);
  if (st == 1) { R.status = 1; return; }
  if (st == 2) return;
  if (L == 0) { R.status = 1; return; }                  /* no room for the mode byte */
  if (p < N && in[p] != 10 && in[p] != 13) { R.status = 1; return; }
  if (L >= N - p) return;                                /* body or its ',' not there yet */
  R.mode = in[p]; R.boff = p + 1; R.bend = p + (unsigned int) L;
  if (in[R.bend] != ',') { R.status = 1; return; }
  /* sender */
  st = ref_len(R.bend + 1, N, &L, &p);
  if (st == 1) { R.status = 1; return; }
  if (st == 2) return;
  if (L >= N - p) return;
  R.soff = p; R.slen = (unsigned int) L;
  if (in[p + L] != ',') { R.status = 1; return; }
  /* recipients */
  st = ref_len(p + (unsigned int) L + 1, N, &L, &p);
  if (st == 1) { R.status = 1; return; }
  if (st == 2) return;
  if (L >= N - p) return;
  end = p + (unsigned int) L; R.end = end + 1;
  R.status = 1;
  if (in[end] != ',') return;
  q = p;
  for (k = 0; k < MAXR; ++k) {
    unsigned long l; unsigned int p2;
    if (q >= end) break;
    if (ref_len(q, end, &l, &p2) != 0) return;
    if (l >= end - p2) return;
    if (in[p2 + l] != ',') return;
    R.roff[k] = p2; R.rlen[k] = (unsigned int) l; R.nr = k + 1;
    q = p2 + (unsigned int) l + 1;
  }
  CHECK(q >= end, "harness sizing: more recipients than MAXR");
  if (q != end) return;
  R.status = 2;
}

static void ref_policy(void)
{
  unsigned int i, k, relaylen = have_relay ? RELAYLEN : 0;
  /* decoded length: in CR LF mode every CR LF pair counts as one byte */
  R.dlen = 0;
  i = R.boff;
  for (k = 0; k < N; ++k) {
    if (i >= R.bend) break;
    if (R.mode == 13 && in[i] == 13 && i + 1 < R.bend && in[i + 1] == 10) i += 2; else i += 1;
    ++R.dlen;
  }
  R.too_big = (DB != 0 && R.dlen > DB);
  R.sender_bad = R.slen >= 1000 || has_nul(R.soff, R.slen);
  /* acceptable: fits, no NUL, and relay client or listed in rcpthosts.  rh[i] is the
   * verdict rcpthosts() gives for recipient i if it is asked (whether it is also asked
   * about a recipient that is refused anyway is the daemon's business) */
  for (i = 0; i < MAXR; ++i) {
    if (i >= R.nr) break;
    R.ok[i] = !(R.rlen[i] + relaylen >= 1000) && !has_nul(R.roff[i], R.rlen[i]) && (have_relay || rh[i] == 1);
    if (R.ok[i]) R.okidx[R.nok++] = i;
  }
}

/* ---- observed */
static unsigned int inpos;
static int n_open, n_close, n_from, n_received, order_bad;
static int g_flagerr, daemon_fail_calls;
static unsigned int nwr;
static unsigned int dpos, dcount; static int msg_bad;      /* reference decoder cursor */
static int from_bad, to_bad, rh_bad, rh_said_trouble, write_failed; static unsigned int n_to;
static char *close_result = "?";
static int rbad, reply_bad; static unsigned int nrep, nK; static char rclass_seen;
static unsigned int outcount, flushed;

/* ---- streams: ideal substdio at chunk granularity (same contract as lib/ideal_substdio.c:
 * put appends exactly the given bytes, get delivers the next byte; defined here because the
 * reply recogniser must see whole chunks - per byte it is inlined ~70 times per reply and
 * unrolled call site, which does not fit).  qmail-qmtpd emits every reply netstring with
 * one substdio_put/puts call; that is checked, not assumed. */
/* WARMUP: the connection first carries one concrete, accepted package ("1:LF,0:,3:0:,," - empty
 * sender, one empty recipient that rcpthosts accepts), handled by the same real main() and
 * ignored by the observers; the package under test is then the SECOND one on the connection.
 * Every message must be handled independently of what the connection carried before. */
#ifdef WARMUP
static const unsigned char warm_pkg[13] = { '1', ':', 10, ',', '0', ':', ',', '3', ':', '0', ':', ',', ',' };
static unsigned int warm_pos;
static int warm_phase = 1;            /* 1: first package in progress, 2: its reply expected, 0: done */
#define WARM (warm_phase != 0)
#else
#define WARM 0
#endif

ssize_t vf_read(int fd, void *buf, size_t len)
{
  CHECK(fd == 0 && len >= 1, "request is read from descriptor 0");
#ifdef WARMUP
  if (warm_pos < sizeof warm_pkg) { *(unsigned char *) buf = warm_pkg[warm_pos++]; return 1; }
#endif
  /* the connection carries at most one package: after it the client has gone */
  if (n_close) return 0;
  if (inpos >= N) return 0;                    /* client has gone */
  *(unsigned char *) buf = in[inpos++];
  return 1;
}
ssize_t vf_write(int fd, const void *buf, size_t len) { CHECK(0, "write() only through the ideal stream"); return -1; }

ssize_t substdio_get(substdio *s, char *buf, size_t len)
{
  CHECK(s == &ssin && s->op == saferead && len == 1, "input is read byte by byte through saferead");
  return saferead(0, buf, 1);
}

static char expected_class(unsigned int j)
{
  /* replies follow qmail_close, so its result is known here */
  char good = close_result[0] ? close_result[0] : 'K';
  if (R.status != 2 || j >= R.nr || j >= MAXR || n_close != 1) return '?';
  if (!R.ok[j]) return 'D';
  if (R.sender_bad || R.too_big) {
    /* policy refusal and independent queue trouble at once: either class is right */
    if ((qstatus != 0 || write_failed) && rclass_seen == close_result[0]) return close_result[0];
    return 'D';
  }
  return good;
}

int substdio_put(substdio *s, const char *b, size_t len)
{
  unsigned int i = 0, v = 0, nd = 0, k;
  CHECK(s == &ssout, "replies go to descriptor 1");
#ifdef WARMUP
  if (warm_phase == 2) {
    unsigned int c = 0;
    warm_phase = 0;
    for (k = 0; k < 4; ++k) { if (k < len && b[k] == ':') { c = k; break; } }
    CHECK(c >= 1 && c + 1 < len && b[c + 1] == 'K', "the warm-up package is acknowledged");
    return 0;
  }
#endif
  ++outcount;
  for (k = 0; k < 3; ++k) {
    if (i < len && b[i] >= '0' && b[i] <= '9') { v = v * 10 + (unsigned int) (b[i] - '0'); ++i; ++nd; } else break;
  }
  if (nd == 0 || v == 0 || i >= len || b[i] != ':' || (size_t) i + 1 + v + 1 != len || b[len - 1] != ',') { rbad = 1; ++nrep; return 0; }
  rclass_seen = b[i + 1];
  if (rclass_seen == 'K') ++nK;
  if (rclass_seen != expected_class(nrep)) reply_bad = 1;
  ++nrep;
  return 0;
}
int substdio_flush(substdio *s) { if (s == &ssout) flushed = outcount; return 0; }

/* ---- environment */
void sig_pipeignore(void) {}
void sig_alarmcatch(void (*f)()) {}
unsigned int vf_alarm(unsigned int s) { return 0; }
int vf_chdir(const char *p) { return 0; }
int control_init(void) { if (init_fails) return -1; return 0; }
int rcpthosts_init(void) { return 0; }
int control_readint(int *i, char *fn) { *i = DB; return DB ? 1 : 0; }
char *env_get(char *name)
{
  if (name[0] == 'R' && name[1] == 'E' && name[2] == 'L' && have_relay) return relay_val;
  return (char *) 0;
}
time_t vf_time(time_t *t) { return 7; }   /* small: fmt_ulong stays inside its unwinding bound */

/* is the C string s exactly in[off..off+len) followed by suffix ?  (never reads s past its NUL) */
static int same_addr(const char *s, unsigned int off, unsigned int len, const char *suffix)
{
  unsigned int i, j;
  for (i = 0; i <= N; ++i) {
    if (i == len) break;
    if (off + i >= N || (unsigned char) s[i] != in[off + i] || s[i] == 0) return 0;
  }
  if (i != len) return 0;
  for (j = 0; j <= RELAYLEN; ++j) { if (s[len + j] != suffix[j]) return 0; if (!suffix[j]) return 1; }
  return 0;
}

int rcpthosts(char *buf, int len)
{
  unsigned int i, j = MAXR;
  CHECK(!have_relay, "rcpthosts is not consulted for a relay client");
  if (WARM) return 1;
  if (n_open != 1) return 1;
  /* which recipient?  the one whose last byte was just read (the ideal stream has no read-ahead) */
  for (i = 0; i < MAXR; ++i) { if (R.status == 2 && i < R.nr && R.roff[i] + R.rlen[i] == inpos) { j = i; break; } }
  if (j == MAXR) { rh_bad = 1; return 1; }       /* only possible for a package that is not well-formed */
  if ((unsigned int) len != R.rlen[j]) rh_bad = 1;
  else if (!has_nul(R.roff[j], R.rlen[j]) && !same_addr(buf, R.roff[j], R.rlen[j], "")) rh_bad = 1;
  if (rh[j] == -1) rh_said_trouble = 1;
  return rh[j];
}

static void wr(void) { if (nwr++ == wfail_at) g_flagerr = write_failed = 1; }

int qmail_open(struct qmail *q)
{
  CHECK(q == &qq, "the daemon's queue connection");
  if (WARM) return 0;
  ++n_open;
  if (n_open == 1 && open_fails) return -1;
  return 0;
}
unsigned long qmail_qp(struct qmail *q) { return 42; }
void qmail_fail(struct qmail *q)
{
  if (WARM) return;
  if (n_open != 1) return;
  CHECK(!n_close, "qmail_fail on an open connection"); g_flagerr = 1; ++daemon_fail_calls;
}
void qmail_put(struct qmail *q, char *s, unsigned int len)
{
  unsigned int i;
  if (WARM) return;
  if (n_open != 1) return;                     /* later package: cannot complete inside the bound */
  CHECK(!open_fails && !n_close, "qmail_put on an open connection");
  if (!n_received || n_from) order_bad = 1;
  wr();
  CHECK(len == 1, "qmail-qmtpd stores the body byte by byte");
  if (len != 1) { msg_bad = 1; return; }
  ++dcount;
  /* reference decoder: next stored byte of the body */
  if (R.mode == 0 || dpos >= R.bend || dpos >= N) msg_bad = 1;
  else {
    unsigned char want = in[dpos];
    if (R.mode == 13 && want == 13 && dpos + 1 < R.bend && in[dpos + 1] == 10) { want = 10; dpos += 2; } else dpos += 1;
    if ((unsigned char) s[0] != want) msg_bad = 1;
  }
}
void qmail_from(struct qmail *q, char *s)
{
  if (WARM) return;
  if (n_open != 1) return;
  CHECK(!open_fails && !n_close, "qmail_from on an open connection");
  if (n_from || n_to) order_bad = 1;
  ++n_from; wr();
  /* an unacceptable sender may be handed over in any form: the connection is failed */
  if (R.status == 2 && !R.sender_bad && !same_addr(s, R.soff, R.slen, "")) from_bad = 1;
}
void qmail_to(struct qmail *q, char *s)
{
  unsigned int i;
  if (WARM) return;
  if (n_open != 1) return;
  CHECK(!open_fails && !n_close, "qmail_to on an open connection");
  if (!n_from) order_bad = 1;
  wr();
  if (R.status != 2 || n_to >= R.nok || n_to >= MAXR) to_bad = 1;
  else {
    i = R.okidx[n_to];
    if (!same_addr(s, R.roff[i], R.rlen[i], have_relay ? relay_val : "")) to_bad = 1;
  }
  ++n_to;
}
char *qmail_close(struct qmail *q)
{
#ifdef WARMUP
  if (warm_phase == 1) { warm_phase = 2; return ""; }
#endif
  CHECK(n_open == 1, "harness sizing: a second package cannot be completed inside the bound");
  CHECK(!open_fails && !n_close, "qmail_close on an open connection");
  ++n_close;
  if (qstatus == 1) close_result = "Dqq permanent problem (#5.3.0)";
  else if (qstatus == 2 || g_flagerr) close_result = "Zqq temporary problem (#4.3.0)";
  else close_result = "";
  return close_result;
}
void received(struct qmail *q, char *protocol, char *local, char *rip, char *rhost, char *rinfo, char *helo)
{
  if (WARM) return;
  if (n_open != 1) return;
  CHECK(!open_fails && dcount == 0 && !n_from, "Received line is the first thing written");
  CHECK(protocol[0] == 'Q' && protocol[1] == 'M' && protocol[2] == 'T' && protocol[3] == 'P' && !protocol[4], "with QMTP");
  ++n_received;
}

void vf__exit(int status)
{
  int queued = n_close == 1 && close_result[0] == 0;
  int res_trouble = R.huge || open_fails || init_fails || rh_said_trouble;
  int must_fail = R.sender_bad || R.too_big || R.nok == 0;

  CHECK(status == 0 || status == 100 || (status == 111 && res_trouble), "C07(2): exit status is 0, 100, or 111 for resource trouble");
  CHECK(nK == 0 || (queued && flushed == outcount), "C07(2): K is sent only after the queue connection was closed successfully");
  CHECK(R.status == 2 || !queued, "C07(2): truncated or malformed package => nothing queued");
  CHECK(R.status != 1 || (nrep == 0 && status != 0), "C07(2): complete malformed netstring => exit 100, no reply");
  CHECK(R.status == 2 || nrep == 0, "C07(2): no reply before the package is complete");
  if (R.status == 2 && !res_trouble) {
    CHECK((status == 0 || R.end < N) && n_received == 1 && n_from == 1 && n_close == 1 && !order_bad && !rbad && flushed == outcount,
          "C07(2): a well-formed package is handed over in order and answered with well-formed, flushed replies");
    CHECK(!rh_bad, "C07(2): rcpthosts is asked about the recipient as sent");
    CHECK(must_fail ? !queued : daemon_fail_calls == 0,
          "C07(2): bad sender / oversize body / no acceptable recipient => nothing queued; otherwise the daemon does not fail the message");
    CHECK(!reply_bad && nrep == R.nr, "C07(2): one reply per recipient, in order: K iff acceptable and queued, D for policy, else the queue's class");
    CHECK(!queued || (!msg_bad && dpos == R.bend && dcount == R.dlen && !from_bad && !to_bad && n_to == R.nok),
          "C07(2): K => queue got Received + exactly the decoded body, the sender, and the acceptable recipients in order");
  }
  if ((R.status == 2 && res_trouble && !R.huge) || rh_said_trouble)
    CHECK(status == 111 && nK == 0 && !queued, "C07(2): resource trouble => exit 111, nothing queued");
#if defined(WITNESS_INLINE) || defined(WITNESS_TWIN)
  if (R.status == 0 && status == 0 && n_open == 1) WITNESS("disconnect_after_open");
  if (R.status == 1 && n_open == 1 && !open_fails) WITNESS("malformed_after_open");
  if (R.status == 2 && res_trouble) WITNESS("resources");
  if (R.status == 2 && !res_trouble && R.sender_bad) WITNESS("bad_sender");
  if (R.status == 2 && !res_trouble && R.too_big && R.dlen == DB + 1) WITNESS("one_byte_over");
  if (R.status == 2 && !res_trouble && DB && R.dlen == DB && queued && R.mode == 13) WITNESS("exactly_databytes_crlf_mode");
  if (R.status == 2 && !res_trouble && R.nr >= 1 && R.nok == 0) WITNESS("recipient_refused");
  if (R.status == 2 && !res_trouble && !queued && R.nok && !must_fail && close_result[0] == 'D') WITNESS("queue_permanent");
  if (R.status == 2 && !res_trouble && !queued && R.nok && !must_fail && close_result[0] == 'Z') WITNESS("queue_temporary");
  if (queued && have_relay) WITNESS("accepted_K_relay");
  if (queued && R.mode == 13 && R.dlen < R.bend - R.boff) WITNESS("accepted_K_crlf_decoded");
  if (queued) WITNESS("accepted_K");
  WITNESS("exit");
#endif
  PATH_END();
#ifdef VERIF_CBMC
  __CPROVER_assume(0);
#endif
}

void vmain(void)
{
  unsigned int i;
  sym_inputs();
  ASSUME(qstatus <= 2 && open_fails <= 1 && init_fails <= 1 && have_relay <= 1);
  for (i = 0; i < MAXR; ++i) ASSUME(rh[i] >= -1 && rh[i] <= 1);
#ifdef TEMPLATE
  template_fill(in);
#endif
  ref_parse();
  if (R.status == 2) { ref_policy(); dpos = R.boff; }
  else R.mode = 0;
  qmtpd_main();
  CHECK(0, "qmail-qmtpd leaves only through _exit");
}
