# C07 - network daemons acknowledge iff exactly that message was queued.
#
# Obligations (DESIGN.md 4, C07):
#   qmail_unit         qmail.c against fork/pipe/exec/wait stubs and buffered ideal streams with failing writes
#   received_safe      received.c: layout of the Received field, safe-set filtering of peer-controlled strings
#   smtp_data          qmail-smtpd.c smtp_data with blast() cut to (hop count, body bytes): 250 iff queued, 554/552/451 classes
#   qmqpd_main         qmail-qmqpd.c main on every N-byte input (N = 0..10 quick, ..12 thorough)
#   qmqpd_tmpl_*       ... on template families (qmqp_template.h): recipient framing, sender, 999/1000-byte address
#   qmtpd_main         qmail-qmtpd.c main on every N-byte connection (N = 0..10 quick, ..13 thorough)
#   qmtpd_tmpl_*       ... on template families (qmtp_template.h): recipients framing, body (CR LF, databytes), sender,
#                      two recipients, 997..1000-byte recipient (+RELAYCLIENT suffix), 999/1000-byte sender
#
# kills: (hand-made mutants of /repo in a scratch worktree; each one is reported as VIOLATION with a native replay rc 1)
#   qmail.c      `case 0: if (!qq->flagerr) return "";` -> `case 0: return "";`                      qmail_unit
#   qmail.c      qmail_put without `if (!qq->flagerr)`                                                 qmail_unit
#   qmail.c      qmail_close without the final substdio_flush                                          qmail_unit
#   qmail-smtpd.c  `hops >= MAXHOPS` -> `>`                                                            smtp_data
#   qmail-smtpd.c  `bytestooverflow = databytes + 1` -> `databytes`                                    smtp_data DB>0
#   qmail-smtpd.c  accept on `!*qqx || *qqx == 'Z'`                                                    smtp_data
#   received.c   issafe() also admits '(' ; safeput without the replacement                            received_safe
#   qmail-qmqpd.c  `result = qmail_close(&qq)` -> result = "" (acknowledge whatever the queue said)   qmqpd_main N=9
#   qmail-qmqpd.c  `if (!flagok)` override dropped (NUL address answered Z)                            qmqpd_main N=10
#   qmail-qmqpd.c  getcomma() without the check                                                        qmqpd_main N=9
#   qmail-qmqpd.c  getbuf `len >= 1000` -> `>`  (buf[1000] written)                                    qmqpd_long_addr AL=1000
#   qmail-qmtpd.c  pre-fix tree 356f27c (inner recipient length accepts non-digits, ";:" == 11)        qmtpd_tmpl_rcpt TL=10
#   qmail-qmtpd.c  `len + relayclientlen >= 1000` -> `>`                                               qmtpd_long_rcpt AL=1000
#   qmail-qmtpd.c  sender `len >= 1000` -> `>`                                                         qmtpd_long_sender AL=1000
#   qmail-qmtpd.c  `if (!flagsenderok) result = "D..."` dropped                                        qmtpd_tmpl_sender TS=1
#   qmail-qmtpd.c  `result = qmail_close(&qq)` -> result = ""                                          qmtpd_tmpl_two
#   qmail-qmtpd.c  `if (len >= biglen) badproto();` dropped                                            qmtpd_tmpl_rcpt TL=1
#   qmail-qmtpd.c  `bytestooverflow = databytes + 1` -> `databytes`                                    qmtpd_tmpl_body TB=2 DB=1 (and TB=3 DB=2)
import os
from vlib import Obl, Prog

def obligations(tier):
    q = tier == "quick"
    obls = []
    obls.append(Obl("qmail_unit", "qmail_unit.c",
        progs=[Prog("qmail.c")], repo=["substdio.c"], lib=["ideal_substdio.c"],
        # C07_ANY_CUSTOM_TEXT=1 drops the assumption that exit-82 error text starts with D or Z (see qmail_unit.c, JUDGEMENT)
        defines=({"C07_ANY_CUSTOM_TEXT": None} if os.environ.get("C07_ANY_CUSTOM_TEXT") else {}),
        sysrename=["pipe", "fork", "close", "chdir", "execv", "_exit", "read", "write"],
        grid=[{"NM": 2, "NR": 2}] if q else [{"NM": 2, "NR": 2}, {"NM": 3, "NR": 3}],
        unwind_default=lambda p: p["NM"] + 6 * p["NR"] + 20,
        unwind={"qmail_errstr": 7},
        timeout=900 if q else 2400,
        functions=["qmail.c:qmail_open", "qmail.c:qmail_qp", "qmail.c:qmail_fail", "qmail.c:qmail_put", "qmail.c:qmail_from",
                   "qmail.c:qmail_to", "qmail.c:qmail_errstr", "qmail.c:qmail_close", "qmail.c:setup_qqargs", "substdio.c:substdio_fdbuf"],
        stubs=["pipe/fork/close/fd_move/chdir/execv/wait_pid/env_get: descriptor table + symbolic failures, both sides of fork",
               "substdio_put/flush/get: buffered ideal streams (pending until flush, early push, failing and partial writes from a tape)"],
        assumes=["NM message bytes, sender and NR recipients of <= 2 bytes, any bytes; qmail_fail() before any step; any number of write failures; "
                 "wait status 0..65535 (every exit code, every signal); <= 4 bytes of error text"],
        outside=["longer messages/envelopes", "real descriptor inheritance and process scheduling"],
        claim="qmail_close returns \"\" iff no failure was flagged and qmail-queue exited 0, and then qmail-queue received exactly the message and "
              "F sender NUL (T rcpt NUL)* NUL; after any flagged failure the envelope terminator never reaches qmail-queue; every exit code maps "
              "to the D/Z class of qmail-queue(8); the child is wired 0=message 1=envelope 6=errors",
        expect_witnesses=["open_failed", "child_execs_queue", "child_gives_up", "queued", "failed_but_queue_exit_0", "crashed",
                          "custom_text", "permanent", "temporary", "closed"]))
    obls.append(Obl("received_safe", "received.c",
        progs=[Prog("received.c")], sysrename=["time"],
        grid=[{"SL": 3}] if q else [{"SL": 3}, {"SL": 4}, {"SL": 5}],
        unwind_default=lambda p: 5 * p["SL"] + 84,
        timeout=900 if q else 2400,
        functions=["received.c:received", "received.c:safeput", "received.c:issafe"],
        cuts=["qmail_put -> recorder (contract: qmail_unit)", "datetime_tai/date822fmt -> fixed 5-byte date (C20 range lemma)"],
        stubs=["time(): constant"],
        assumes=["TCPREMOTEHOST, HELO, TCPREMOTEINFO, TCPREMOTEIP, TCPLOCALHOST: any NUL-terminated strings of <= SL bytes; HELO and TCPREMOTEINFO may be absent"],
        outside=["strings longer than SL bytes (safeput is a single uniform loop)"],
        claim="the Received field has exactly the documented layout; every byte that comes from the peer-controlled strings is in the safe set "
              "(unchanged) or replaced by '?'; the field contains no NUL/CR and only the folding and the final LF",
        expect_witnesses=["unsafe_byte_replaced", "all_fields_full_length", "no_helo_no_info", "done"]))
    obls.append(Obl("smtp_data", "smtp_data.c",
        progs=[Prog("qmail-smtpd.c", nomain=True, cut=["blast"])], repo=["fmt_ulong.c"], lib=["ideal_substdio.c"],
        sysrename=["_exit", "time"],
        grid=[{"DB": d} for d in ([0, 1, 3] if q else [0, 1, 2, 3])],
        unwind_default=12, unwind={"substdio_put": 100},
        timeout=900 if q else 2400,
        functions=["qmail-smtpd.c:smtp_data", "qmail-smtpd.c:put", "qmail-smtpd.c:acceptmessage", "qmail-smtpd.c:out", "qmail-smtpd.c:err_*",
                   "fmt_ulong.c:fmt_ulong"],
        cuts=["blast -> NB<=4 body bytes through the real put() + arbitrary hop count (blast itself: C05; hop counter: opt-in obligation blast_hops below)",
              "qmail_open/put/fail/from/close -> contract proved by qmail_unit (sticky failure flag; \"\" iff flag clear and exit 0)",
              "received -> marker (received_safe)"],
        stubs=["substdio on ssout: ideal stream", "time(): constant"],
        assumes=["hop count any int >= 0; body <= 4 bytes; databytes = DB; sender <= 3 bytes; rcptto <= 6 arbitrary bytes; "
                 "qmail-queue outcome ok/permanent/temporary; one write failure at any qmail_put; qmail_open may fail"],
        outside=["that blast() counts 98..101 header fields correctly (99-line prefix does not get through symex, DESIGN C07)"],
        claim="smtp_data answers 250 iff qmail_close reported success, and then Received + exactly the body, the MAIL sender and the accepted "
              "recipients were handed over; hops >= 100 => failed, 554; body > databytes => failed, 552; D => 554, Z => 451; inside both "
              "limits the daemon never fails the message itself",
        expect_witnesses=lambda p: ["out_of_sequence", "open_failed", "accepted_250", "hops_100", "queue_permanent", "queue_temporary",
                                    "at_both_limits", "done"] + (["one_byte_over"] if p["DB"] else [])))
    def qmqp_wit(p):
        n = p["N"]
        w = ["exit"]
        if n >= 4: w.append("disconnect_after_open")
        if n >= 6: w.append("malformed_after_open")
        if n >= 9: w += ["accepted_K", "queue_permanent", "queue_temporary", "resources"]
        if n >= 10: w.append("nul_in_address")
        if n >= 12: w.append("accepted_K_with_recipient")
        return w
    def qmqp_unw(n):
        # loop bounds from the byte budget of an n-byte request, each proved by its unwinding assertion:
        # ":" + ":," + ":," = 5 bytes precede the first recipient, a recipient takes at least 2 bytes (":,")
        return {"qmqpd_main~while (bytesleft)": max(0, n - 5) // 2 + 2, "qmqpd_main~while (len > 0)": max(0, n - 3) + 2,
                "getbuf": max(0, n - 4) + 2, "getlen": n + 2, "byte_chr": n // 4 + 2,
                "substdio_put": 56, "strlen": 56, "fmt_ulong": 4, "fmt_str": 8}
    QMQP = dict(
        progs=[Prog("qmail-qmqpd.c", sub=[(r"^main\(\)", "qmqpd_main()", 1)])],
        repo=["fmt_ulong.c", "fmt_str.c", "byte_chr.c"], lib=["ideal_substdio.c"],
        sysrename=["_exit", "read", "write", "alarm", "chdir", "time"],
        timeout=1500 if q else 3000,
        functions=["qmail-qmqpd.c:main", "qmail-qmqpd.c:getlen", "qmail-qmqpd.c:getbyte", "qmail-qmqpd.c:getcomma", "qmail-qmqpd.c:getbuf",
                   "qmail-qmqpd.c:identify", "qmail-qmqpd.c:saferead", "fmt_ulong.c", "fmt_str.c", "byte_chr.c"],
        cuts=["qmail_open/put/from/to/fail/close -> contract proved by qmail_unit", "received -> marker (received_safe)"],
        stubs=["substdio: ideal streams; read() returns the next request byte, 0 after the last", "env_get: unset; chdir/qmail_open may fail",
               "sig_*, alarm: no-ops; time(): constant"],
        outside=["requests longer than the grid", "write errors towards the client", "SIGALRM"])
    obls.append(Obl("qmqpd_main", "qmqpd.c",
        grid=[{"N": n} for n in (range(0, 11) if q else range(0, 13))],
        unwind_default=lambda p: p["N"] + 3, unwind=lambda p: qmqp_unw(p["N"]),
        assumes=["the client sends exactly N arbitrary bytes and disconnects; qmail-queue outcome ok/permanent/temporary; one write failure anywhere"],
        claim="for every N-byte input: K iff the queue connection closed successfully, and then exactly the request's message, sender and "
              "recipients were handed over; complete malformed frames exit 100 with nothing queued; NUL in an address => D; "
              "truncated requests queue nothing",
        expect_witnesses=qmqp_wit, **QMQP))
    TQ = "request matches the template of harness/C07/qmqp_template.h (all values of its symbolic bytes); "
    obls.append(Obl("qmqpd_tmpl_rcpt", "qmqpd.c", defines={"TEMPLATE": 1},
        grid=[{"TL": l} for l in ([1, 8] if q else range(0, 13))],
        unwind_default=lambda p: 16 + p["TL"] + 3, unwind=lambda p: qmqp_unw(16 + p["TL"]),
        assumes=[TQ + "template 1: one recipient netstring with symbolic length field, separator, first/last payload byte, terminator, outer terminator"],
        claim="template 1 (recipient framing): same claim as qmqpd_main for every value of the 7 symbolic bytes",
        expect_witnesses=lambda p: ["exit", "malformed_after_open", "accepted_K", "accepted_K_with_recipient", "queue_permanent", "queue_temporary", "resources"]
                                   + (["nul_in_address"] if p["TL"] else []), **QMQP))
    obls.append(Obl("qmqpd_tmpl_sender", "qmqpd.c", defines={"TEMPLATE": 3},
        grid=[{"TS": x} for x in ([1] if q else [0, 1, 2, 3, 4])],
        unwind_default=lambda p: 16 + p["TS"] + 3, unwind=lambda p: qmqp_unw(16 + p["TS"]),
        assumes=[TQ + "template 3: sender netstring with symbolic length digit, separator, TS bytes and terminator"],
        claim="template 3 (sender): NUL in the sender => D, nothing queued; framing of the sender netstring",
        expect_witnesses=["exit", "malformed_after_open", "accepted_K_with_recipient", "nul_in_address"], **QMQP))
    def long_nq(al):
        outer = 7 + len(str(al)) + 1 + al + 1
        return len(str(outer)) + 1 + outer + 1
    obls.append(Obl("qmqpd_long_addr", "qmqpd.c", defines={"TEMPLATE": 5},
        flags=["--max-field-sensitivity-array-size", "2048"],
        grid=[{"AL": a} for a in [999, 1000]],
        unwind_default=lambda p: long_nq(p["AL"]) + 3, unwind=lambda p: qmqp_unw(long_nq(p["AL"])),
        assumes=[TQ + "template 5: one recipient of AL bytes, first and last byte symbolic, everything else concrete"],
        claim="template 5 (address length limit): an address of 1000 bytes is answered D and nothing is queued, 999 bytes are accepted; "
              "no buffer is overrun (standard checks on)",
        expect_witnesses=lambda p: ["exit"] + (["accepted_K_with_recipient", "nul_in_address"] if p["AL"] < 1000 else ["address_too_long"]), **QMQP))
    def qmtp_wit(p):
        n = p["N"]
        w = ["exit"]
        if n >= 3: w += ["disconnect_after_open", "malformed_after_open"]
        if n >= 8: w += ["resources"]
        if n >= 10: w += ["bad_sender"]
        if n >= 11: w += ["accepted_K", "queue_permanent", "queue_temporary", "recipient_refused", "accepted_K_relay"]
        return w
    def qmtp_unw(n):
        # Loop bounds from the byte budget of an n-byte connection (each one is proved by its unwinding assertion):
        # at least 7 bytes precede the recipients' payload ("1:" mode "," ":," ":"), a recipient takes at least 2 (":,").
        pay = max(0, n - 7)
        return {"qmtpd_main~      for (;;) {": pay + 2,                 # digits of a recipient's length   (more specific key first)
                "qmtpd_main~for (;;) {": 2,                            # packages: the second one only meets the EOF
                "qmtpd_main~while (biglen > 0)": pay // 2 + 2,
                "qmtpd_main~        for (i = 0;i < len;++i)": max(0, pay - 1) + 2,   # recipient bytes
                "qmtpd_main~for (i = 0;i < len;++i)": max(0, n - 5) + 2,             # sender bytes
                "qmtpd_main~i < failure.len": pay // 2 + 2,
                "strlen": 72, "fmt_ulong": 4, "fmt_str": 72}
    QMTP = dict(
        progs=[Prog("qmail-qmtpd.c", sub=[(r"^main\(\)", "qmtpd_main()", 1)])],
        repo=["fmt_ulong.c", "fmt_str.c", "stralloc_opys.c", "stralloc_opyb.c", "stralloc_pend.c", "byte_copy.c"],
        lib=["arena_stralloc.c"],
        sysrename=["_exit", "read", "write", "alarm", "chdir", "time"],
        timeout=1500 if q else 3000,
        functions=["qmail-qmtpd.c:main", "qmail-qmtpd.c:getlen", "qmail-qmtpd.c:getcomma", "qmail-qmtpd.c:saferead", "fmt_ulong.c", "fmt_str.c",
                   "stralloc_opys.c", "stralloc_opyb.c", "stralloc_pend.c"],
        cuts=["qmail_open/put/from/to/fail/close -> contract proved by qmail_unit", "received -> marker (received_safe)",
              "rcpthosts -> arbitrary verdict 1/0/-1 per call, arguments checked (meaning: C08 rcpthosts_ref)"],
        stubs=["substdio_get/put/flush: ideal streams at chunk granularity, defined in the harness; read() returns the next byte, 0 after the last or after the first complete package", "env_get: RELAYCLIENT unset or \"@r\"; control_readint: databytes = DB",
               "control_init/qmail_open may fail; sig_*, alarm, chdir: no-ops; time(): constant", "stralloc_ready/readyplus: arena"],
        outside=["connections longer than the grid", "a second complete package on the same connection", "write errors towards the client", "SIGALRM"])
    obls.append(Obl("qmtpd_main", "qmtpd.c",
        defines={"ARENA_CAP": 16, "ARENA_SLOTS": 1},
        grid=[{"N": n, "DB": 0} for n in (range(0, 11) if q else range(0, 14))],
        unwind_default=lambda p: p["N"] + 3,
        # the per-package loop runs twice: the second round only meets the end of input (read() stub: the client is gone once the
        # queue connection was closed), which the unwinding assertion proves
        unwind=lambda p: qmtp_unw(p["N"]),
        assumes=["the client sends exactly N arbitrary bytes and disconnects; databytes = DB; qmail-queue outcome ok/permanent/temporary; "
                 "one write failure anywhere; RELAYCLIENT unset or set"],
        claim="for every N-byte connection: K only after a successful close, replies exactly per recipient (K iff acceptable and queued, D for policy), "
              "queued content = decoded body, sender, acceptable recipients (+relay suffix) in order; malformed netstrings exit 100; bad sender / "
              "oversize => D, nothing queued; truncated packages queue nothing",
        expect_witnesses=qmtp_wit, **QMTP))
    TM = "connection = one package matching the template of harness/C07/qmtp_template.h (all values of its symbolic bytes), cut off nowhere; "
    obls.append(Obl("qmtpd_tmpl_rcpt", "qmtpd.c",
        defines={"ARENA_CAP": 16, "ARENA_SLOTS": 1, "TEMPLATE": 1, "DB": 0},
        grid=[{"TL": l} for l in ([1, 3, 10] if q else range(0, 13))],
        unwind_default=lambda p: 15 + p["TL"] + 3, unwind=lambda p: qmtp_unw(15 + p["TL"]),
        assumes=[TM + "template 1: recipients section with symbolic length fields, separators, first/last payload byte and terminators around L filler bytes"],
        claim="template 1 (recipients framing): same claim as qmtpd_main for every value of the <= 10 symbolic bytes",
        expect_witnesses=lambda p: ["exit", "disconnect_after_open", "malformed_after_open", "resources", "accepted_K", "recipient_refused",
                                    "queue_permanent", "queue_temporary", "accepted_K_relay"], **QMTP))
    obls.append(Obl("qmtpd_tmpl_body", "qmtpd.c",
        defines={"ARENA_CAP": 16, "ARENA_SLOTS": 1, "TEMPLATE": 2},
        # two or more body bytes are expensive (the CR LF loop makes every later stream position symbolic): thorough tier only
        grid=[{"TB": b, "DB": d} for (b, d) in ([(2, 1)] if q else [(2, 1), (3, 0), (3, 1), (3, 2), (4, 2), (4, 3)])],
        unwind_default=lambda p: 13 + p["TB"] + 3, unwind=lambda p: qmtp_unw(13 + p["TB"]),
        assumes=[TM + "template 2: mode byte and B-1 body bytes symbolic, databytes = DB"],
        claim="template 2 (body): CR LF decoding and the databytes limit for every mode byte and body of B-1 bytes",
        expect_witnesses=lambda p: ["exit", "accepted_K", "malformed_after_open"] + (["accepted_K_crlf_decoded"] if p["TB"] >= 3 and (p["DB"] == 0 or p["DB"] >= p["TB"] - 2) else [])
                                   + (["one_byte_over"] if p["DB"] and p["TB"] - 1 > p["DB"] else [])
                                   + (["exactly_databytes_crlf_mode"] if p["DB"] and p["TB"] - 1 >= p["DB"] else []), **QMTP))
    obls.append(Obl("qmtpd_tmpl_sender", "qmtpd.c",
        defines={"ARENA_CAP": 16, "ARENA_SLOTS": 1, "TEMPLATE": 3, "DB": 0},
        grid=[{"TS": x} for x in ([1] if q else [0, 1, 2, 3, 4])],
        unwind_default=lambda p: 15 + p["TS"] + 3, unwind=lambda p: qmtp_unw(15 + p["TS"]),
        assumes=[TM + "template 3: sender netstring with symbolic length digit, separator, S bytes and terminator"],
        claim="template 3 (sender): NUL in the sender => D for every recipient, nothing queued; framing of the sender netstring",
        expect_witnesses=lambda p: ["exit", "accepted_K", "malformed_after_open", "disconnect_after_open"] + (["bad_sender"] if p["TS"] else []), **QMTP))
    obls.append(Obl("qmtpd_tmpl_two", "qmtpd.c",
        defines={"ARENA_CAP": 16, "ARENA_SLOTS": 1, "TEMPLATE": 4, "DB": 0},
        unwind_default=21, unwind=qmtp_unw(18),
        assumes=[TM + "template 4: two one-byte recipients, any bytes, independent rcpthosts verdicts"],
        claim="template 4 (two recipients): replies in recipient order, K exactly for the acceptable ones, which are exactly the ones handed to the queue",
        expect_witnesses=["exit", "accepted_K", "recipient_refused", "resources", "accepted_K_relay", "queue_permanent", "queue_temporary"], **QMTP))
    # a package is handled independently of what the same connection carried before: the template-4 package as the SECOND package,
    # after a concrete accepted one (seeded change C07-flagbother-per-connection needed exactly this)
    unw2 = dict(qmtp_unw(18)); unw2["qmtpd_main~for (;;) {"] = 3
    obls.append(Obl("qmtpd_second_package", "qmtpd.c",
        defines={"ARENA_CAP": 16, "ARENA_SLOTS": 1, "TEMPLATE": 4, "DB": 0, "WARMUP": None},
        unwind_default=21, unwind=unw2,
        assumes=[TM + "template 4 as the second package of the connection; the first package is the concrete accepted package 1:LF,0:,3:0:,,"],
        claim="the second package of a connection is answered and queued exactly like a first one (no state of the earlier package leaks into it): "
              "in particular no acceptable recipient => nothing queued",
        expect_witnesses=["exit", "accepted_K", "recipient_refused"], **QMTP))
    def long_n5(al):
        dg = lambda x: len(str(x))
        big = dg(al) + 1 + al + 1
        return 7 + dg(big) + 1 + big + 1
    obls.append(Obl("qmtpd_long_rcpt", "qmtpd.c",
        defines={"ARENA_CAP": 16, "ARENA_SLOTS": 1, "TEMPLATE": 5, "DB": 0},
        # the request is a 1 kB array that is concrete almost everywhere: without element-wise constant propagation
        # (cbmc's default limit is 64 elements) every stream position becomes symbolic and symex does not finish
        flags=["--max-field-sensitivity-array-size", "2048"],
        grid=[{"AL": a} for a in ([999, 1000] if q else [997, 998, 999, 1000])],
        unwind_default=lambda p: long_n5(p["AL"]) + 3, unwind=lambda p: qmtp_unw(long_n5(p["AL"])),
        assumes=[TM + "template 5: one recipient of AL bytes, first and last byte symbolic, everything else concrete"],
        claim="template 5 (address length limit): a recipient whose length plus the RELAYCLIENT suffix reaches 1000 bytes is answered D and not queued, "
              "one byte less is accepted; no buffer is overrun (standard checks on)",
        expect_witnesses=lambda p: ["exit", "recipient_refused"] + (["accepted_K"] if p["AL"] < 1000 else []) + (["accepted_K_relay"] if p["AL"] <= 997 else []),
        **QMTP))
    obls.append(Obl("qmtpd_long_sender", "qmtpd.c",
        defines={"ARENA_CAP": 16, "ARENA_SLOTS": 1, "TEMPLATE": 6, "DB": 0},
        flags=["--max-field-sensitivity-array-size", "2048"],
        grid=[{"AL": a} for a in ([1000] if q else [999, 1000])],
        unwind_default=lambda p: p["AL"] + 30, unwind=lambda p: qmtp_unw(p["AL"] + 4 + len(str(p["AL"])) + 8),
        assumes=[TM + "template 6: sender of AL bytes, first and last byte symbolic, everything else concrete"],
        claim="template 6 (sender length limit): a sender of 1000 bytes is refused with D for every recipient, 999 bytes are accepted",
        expect_witnesses=lambda p: ["exit", "bad_sender"] + (["accepted_K"] if p["AL"] < 1000 else []), **QMTP))
    # Hop counter of blast() against the stored message (DESIGN C07 Bounds (i)).  On the original tree this reported that a
    # dot-stuffed header line (".Received: ..." on the wire, stored as "Received: ...") was not counted; repaired in /repo by the
    # "fix: qmail-smtpd: count Received/Delivered-To fields on the decoded header line" commit (known-findings.txt).
    if True:
        obls.append(Obl("blast_hops", "blast_hops.c",
            progs=[Prog("qmail-smtpd.c", nomain=True)], lib=["ideal_substdio.c"], sysrename=["_exit", "time"],
            grid=[{"N": n} for n in ([13, 14] if q else [13, 14, 16])],
            unwind_default=lambda p: p["N"] + 3, unwind={"substdio_put": 100}, timeout=1500,
            functions=["qmail-smtpd.c:blast", "qmail-smtpd.c:put"],
            cuts=["qmail_put -> recorder"], stubs=["substdio: ideal streams; end of input = die_read()"],
            assumes=["SMTP DATA stream of exactly N arbitrary bytes"], outside=["counts above 1 or 2 (uniform loop)"],
            claim="blast()'s hop counter equals the number of Received/Delivered-To header lines of the message it stores",
            expect_witnesses=["aborted", "complete", "one_hop"]))
    # the size limit on the real decoder (smtp_data cuts blast(); here blast()+put() run with the limit in force).
    # kills: `if (!--bytestooverflow)` -> `if (!bytestooverflow--)`; put() counting after the hand-over; limit armed as databytes
    obls.append(Obl("blast_databytes", "blast_db.c",
        progs=[Prog("qmail-smtpd.c", nomain=True)], lib=["ideal_substdio.c"], sysrename=["_exit", "time"],
        grid=[{"N": 8, "DB": 1}, {"N": 8, "DB": 3}] if q else [{"N": 8, "DB": 1}, {"N": 8, "DB": 3}, {"N": 12, "DB": 2}, {"N": 12, "DB": 5}],
        unwind_default=lambda p: p["N"] + 3, unwind=lambda p: {"substdio_put": 64}, timeout=900,
        functions=["qmail-smtpd.c:blast", "qmail-smtpd.c:put"],
        cuts=["qmail_put -> recorder (any run length)", "qmail_fail -> counted"], stubs=["substdio: ideal streams (feed with symbolic read boundaries); end of input = die_read()"],
        assumes=["SMTP DATA stream of exactly N arbitrary bytes; databytes = DB, bytestooverflow = DB+1 as smtp_data() arms it"],
        outside=["streams longer than N", "limits above 5"],
        claim="with databytes = DB in force, blast()/put() flag the transaction as failed iff more than DB decoded bytes are handed to the queue, and do so before byte DB+1 is handed over",
        expect_witnesses=["aborted", "complete", "over_limit", "exactly_at_limit"]))
    # a client disconnect or stall at any byte is never mistaken for the end of the message or for a successful write: the daemons' saferead()/
    # safewrite() wrappers and the timeout units below them (harness/C09/safeio.c, timeout_rw.c)
    from vlib import borrow; obls += borrow("C09", ["timeoutread_unit", "timeoutwrite_unit", "smtpd_safeio"], tier)
    # "a refused or cut-off request queues nothing" rests on qmail-queue refusing an envelope that ends without its final
    # terminator (qmail.c withholds exactly that byte after a failure; qmail-queue.c die_read is an anchor of this property):
    # the whole-main() obligation of C01 is decided as part of this check as well.  kills: recipient loop of qmail-queue.c taking
    # end of input at a record boundary for the terminator (seed round 3, C07 #2)
    obls += [o for o in borrow("C01", ["queue_order"], tier) if True]
    return obls
