/* C07(1) - qmail.c: the client side of the qmail-queue interface.
 * Encoded from /repo: qmail.c (qmail_open, qmail_qp, qmail_fail, qmail_put, qmail_puts,
 * qmail_from, qmail_to, qmail_errstr, qmail_close), substdio.c (substdio_fdbuf).
 *
 * Environment: pipe/fork/close/fd_move/chdir/execv/wait_pid are stubs.  The three pipes
 * are three byte streams with the buffered ideal-stream contract of DESIGN 2.2: a byte
 * accepted by put is *pending* until a flush succeeds, an earlier put may push the bytes
 * pending so far (a full buffer), any put/flush may fail (then at most a proper prefix of
 * the pending bytes went out, never the last one, cf. allwrite()), and whatever is still
 * pending when the descriptor is closed is lost.  All of that is driven by tape[].
 *
 * Reference (qmail-queue(8)):
 *   message on descriptor 0, envelope on descriptor 1, error text on descriptor 6;
 *   envelope = F sender NUL (T recipient NUL)* NUL; EOF before the extra NUL => nothing
 *   is queued;  exit 0 = queued, 11..40 permanent, 82 = custom text ("D.." permanent,
 *   "Z.." temporary), every other code 1..99 temporary.  Codes 100..255 and death by
 *   signal are not documented there: any non-empty D/Z answer is accepted for 100..255,
 *   and a crash / lost child must be temporary (queue trouble).  $QMAILQUEUE replaces
 *   bin/qmail-queue.
 * Script: open; NM message bytes (qmail_fail may be called before any of them);
 * qmail_from; up to NR qmail_to (qmail_fail may be called before any of them); close. */
#include "verif.h"
#include <errno.h>
#include "gen_qmail.c"

#ifndef NM
#define NM 2
#endif
#ifndef NR
#define NR 2
#endif
#define AL 2                    /* address bytes */
#define TAPE (NM + (NR + 1) * (AL + 2) + 8)
#define EB ((NR + 1) * (AL + 2) + 4)

char auto_qmail[] = "/var/qmail";

/* ---- inputs */
unsigned char mbytes[NM];
unsigned char mop[NM + 1];      /* 1: qmail_fail() before message byte i (index NM: before qmail_from) */
char sender[AL + 1];
char rcptf[NR * (AL + 1)];     /* recipient j = rcptf + j*(AL+1) */
#define RCPT(j) (rcptf + (j) * (AL + 1))
unsigned char rop[NR + 1];      /* 0: qmail_to  1: qmail_fail, then qmail_to  2: recipient absent */
unsigned char tape[TAPE];       /* per stream operation: 0 ok, 1 ok and pending bytes go out first,
                                   2 write error, 3 write error after a partial write */
unsigned char pipefail;         /* index of the pipe() call that fails (>= 3: none) */
long forkres;                   /* -1, 0 (child side) or the child's pid */
unsigned char movefail, chdirfail, execfail;
unsigned char have_qqenv;
unsigned char waitmode;         /* 0: child reaped, 1: wait_pid fails */
int wstat_in;
unsigned char errtext[4];
unsigned int errtextlen;
unsigned char errreadfail;

void sym_inputs(void)
{
#ifdef REPLAY
#include "replay_inputs.inc"
#else
  SYM_ARR(mbytes); SYM_ARR(mop); SYM_ARR(sender); SYM_ARR(rop); SYM_ARR(tape);
  SYM_ARR(rcptf);
  SYM(pipefail); SYM(forkres); SYM(movefail); SYM(chdirfail); SYM(execfail); SYM(have_qqenv);
  SYM(waitmode); SYM(wstat_in); SYM_ARR(errtext); SYM(errtextlen); SYM(errreadfail);
#endif
}

/* ---- descriptors: pipe k gives read end 10+2k, write end 11+2k */
#define FD0 10
#define PIM_R 10
#define PIM_W 11
#define PIE_R 12
#define PIE_W 13
#define PIERR_R 14
#define PIERR_W 15
static int fd_open[6];
static unsigned int npipe;
static int in_child;
static int moved[7] = { -1, -1, -1, -1, -1, -1, -1 };
static int chdir_done;

/* ---- streams */
static unsigned char macc[NM + 2]; static unsigned int mn, mdel;
static unsigned char eacc[EB];     static unsigned int en, edel;
static unsigned int taint_m = 0xffffffffu, taint_e = 0xffffffffu;
static int failed;              /* ghost of qq.flagerr: a write failed or qmail_fail was called */
static unsigned int nops;
static unsigned int errpos;
static int waited;
static int env_first_put_after_msg_close = 1;

static void ghost_fail(void)
{
  if (!failed) { failed = 1; taint_m = mn; taint_e = en; }
}

static void delivered_check(void)
{
  CHECK(mdel <= taint_m && edel <= taint_e,
        "C07(1): nothing handed over after the failure flag was set reaches qmail-queue");
}

static int stream_op(int fd, int isput, unsigned char c)
{
  unsigned char t = tape[nops < TAPE ? nops : TAPE - 1];
  unsigned int *n, *del;
  ++nops;
  CHECK(fd == PIM_W || fd == PIE_W, "only the message and envelope pipes are written");
  if (fd != PIM_W && fd != PIE_W) return -1;
  CHECK(fd_open[fd - FD0], "write on a closed descriptor");
  CHECK(!in_child, "the child writes nothing");
  if (fd == PIM_W) { n = &mn; del = &mdel; } else { n = &en; del = &edel; }
  if (t >= 2) {                                   /* write error */
    if (t == 3 && *n > *del) *del = *n - 1;       /* all but the last pending byte went out */
    *n = *del;                                    /* the rest is lost */
    delivered_check();
    ghost_fail();
    return -1;
  }
  if (isput) {
    if (t == 1) { *del = *n; delivered_check(); }
    if (fd == PIM_W) { CHECK(mn < sizeof macc, "harness sizing"); ASSUME(mn < sizeof macc); macc[mn++] = c; }
    else { CHECK(en < sizeof eacc, "harness sizing"); ASSUME(en < sizeof eacc); eacc[en++] = c;
           if (fd_open[PIM_W - FD0]) env_first_put_after_msg_close = 0; }
  } else {
    *del = *n; delivered_check();
  }
  return 0;
}

int ideal_putc(substdio *s, unsigned char c) { return stream_op(s->fd, 1, c); }
int ideal_flush(substdio *s)
{
  if (s->fd != PIM_W && s->fd != PIE_W) { CHECK(0, "flush of a stream that is not an output pipe"); return -1; }
  return stream_op(s->fd, 0, 0);
}

int ideal_getc(substdio *s)
{
  CHECK(s->fd == PIERR_R, "only the error pipe is read");
  CHECK(fd_open[PIERR_R - FD0], "read on a closed descriptor");
  CHECK(!fd_open[PIE_W - FD0] && !fd_open[PIM_W - FD0],
        "C07(1): both output pipes are closed before waiting for the error text (else deadlock)");
  if (errreadfail && errpos == errreadfail - 1u) return -2;
  if (errpos >= errtextlen) return -1;
  return errtext[errpos++];
}

/* ---- system calls */
int vf_pipe(int fds[2])
{
  unsigned int k = npipe++;
  CHECK(k < 3, "three pipes");
  if (k >= 3) return -1;
  if (k == pipefail) { errno = EMFILE; return -1; }
  fds[0] = FD0 + 2 * k; fds[1] = FD0 + 2 * k + 1;
  fd_open[2 * k] = fd_open[2 * k + 1] = 1;
  return 0;
}

pid_t vf_fork(void)
{
  CHECK(npipe == 3, "fork after the three pipes exist");
  if (forkres == 0) in_child = 1;
  return (pid_t) forkres;
}

int vf_close(int fd)
{
  CHECK(fd >= FD0 && fd < FD0 + 6, "close of a descriptor that is not ours");
  if (fd < FD0 || fd >= FD0 + 6) return -1;
  fd_open[fd - FD0] = 0;
  if (fd == PIM_W) mn = mdel;           /* pending bytes never flushed are lost */
  if (fd == PIE_W) en = edel;
  return 0;
}

int fd_move(int to, int from)
{
  CHECK(in_child, "fd_move only in the child");
  CHECK(to == 0 || to == 1 || to == 6, "child rewires descriptors 0, 1 and 6 only");
  if (movefail && movefail - 1 == to) return -1;
  if (to >= 0 && to < 7) moved[to] = from;
  if (from >= FD0 && from < FD0 + 6) fd_open[from - FD0] = 0;
  return 0;
}

int vf_chdir(const char *p)
{
  CHECK(in_child, "chdir only in the child");
  CHECK(p == auto_qmail, "chdir to the qmail home");
  if (chdirfail) return -1;
  chdir_done = 1;
  return 0;
}

static char qqenv_val[] = "/alt/queue";
char *env_get(char *name)
{
  /* the only variable qmail.c may look at */
  CHECK(name[0] == 'Q' && name[1] == 'M' && name[2] == 'A' && name[3] == 'I' && name[4] == 'L' && name[5] == 'Q'
        && name[6] == 'U' && name[7] == 'E' && name[8] == 'U' && name[9] == 'E' && name[10] == 0, "env_get(QMAILQUEUE)");
  if (have_qqenv) return qqenv_val;
  return (char *) 0;
}

static int str_same(const char *a, const char *b)
{
  unsigned int i;
  for (i = 0; i < 24; ++i) { if (a[i] != b[i]) return 0; if (!a[i]) return 1; }
  return 0;
}

int vf_execv(const char *path, char *const argv[])
{
  CHECK(in_child, "exec only in the child");
  /* qmail-queue(8): message on 0, envelope on 1; error text on 6 */
  CHECK(moved[0] == PIM_R, "C07(1): child reads the message pipe on descriptor 0");
  CHECK(moved[1] == PIE_R, "C07(1): child reads the envelope pipe on descriptor 1");
  CHECK(moved[6] == PIERR_W, "C07(1): child writes error text on descriptor 6");
  CHECK(!fd_open[PIM_W - FD0] && !fd_open[PIE_W - FD0],
        "C07(1): child does not keep the write ends (it would never see EOF)");
  CHECK(chdir_done, "relative program path is resolved in the qmail home");
  if (have_qqenv) { CHECK(str_same(path, qqenv_val), "C07(1): $QMAILQUEUE replaces qmail-queue"); }
  else { CHECK(str_same(path, "bin/qmail-queue"), "C07(1): bin/qmail-queue is run"); }
  CHECK(argv[0] == path && argv[1] == 0, "argv = { program, 0 }");
  if (execfail) { errno = ENOENT; return -1; }
  WITNESS("child_execs_queue");
  PATH_END();
  return -1;
}

void vf__exit(int status)
{
  CHECK(in_child, "C07(1): the parent never exits inside qmail.c");
  /* a child that could not become qmail-queue must look like a failed qmail-queue */
  CHECK(status >= 1 && status <= 255, "C07(1): child that cannot exec exits non-zero");
  CHECK(movefail || chdirfail || execfail, "child gives up only after a failed call");
  WITNESS("child_gives_up");
  PATH_END();
#ifdef VERIF_CBMC
  __CPROVER_assume(0);
#endif
}

ssize_t vf_read(int fd, void *b, size_t n) { CHECK(0, "read() is reached only through the ideal stream"); return -1; }
ssize_t vf_write(int fd, const void *b, size_t n) { CHECK(0, "write() is reached only through the ideal stream"); return -1; }

int wait_pid(int *wstat, int pid)
{
  CHECK(!in_child, "wait only in the parent");
  CHECK((long) pid == forkres, "waits for the child it started");
  /* qmail-queue reads the message to EOF, then the envelope: with a write end still open
   * in the parent it would never exit */
  CHECK(!fd_open[PIM_W - FD0], "C07(1): message pipe closed before waiting for qmail-queue");
  CHECK(!fd_open[PIE_W - FD0], "C07(1): envelope pipe closed before waiting for qmail-queue");
  waited = 1;
  if (waitmode) return -1;
  *wstat = wstat_in;
  return pid;
}

/* ---- reference: is e[0..n) a complete envelope  F a* NUL (T a* NUL)* NUL ? */
static int env_complete(const unsigned char *e, unsigned int n)
{
  unsigned int i = 0, k;
  if (n < 3 || e[0] != 'F') return 0;
  for (k = 0; k < EB; ++k) { if (i >= n) return 0; if (e[i] == 0) break; ++i; }
  ++i;                                         /* past the sender's NUL */
  for (k = 0; k < EB; ++k) {
    unsigned int k2;
    if (i >= n) return 0;
    if (e[i] == 0) return i + 1 == n;
    if (e[i] != 'T') return 0;
    for (k2 = 0; k2 < EB; ++k2) { if (i >= n) return 0; if (e[i] == 0) break; ++i; }
    ++i;
  }
  return 0;
}

static struct qmail q;

void vmain(void)
{
  unsigned int i, j, k;
  char *res;
  unsigned char want[EB]; unsigned int wn = 0;
  int exitcode, crashed;

  sym_inputs();
  sender[AL] = 0;
  for (j = 0; j < NR; ++j) RCPT(j)[AL] = 0;
  for (i = 0; i < TAPE; ++i) ASSUME(tape[i] <= 3);
  for (i = 0; i <= NM; ++i) ASSUME(mop[i] <= 1);
  for (j = 0; j <= NR; ++j) ASSUME(rop[j] <= 2);
  ASSUME(rop[NR] <= 1);
  ASSUME(forkres >= -1 && forkres <= 0x7fffffffL);
  ASSUME(wstat_in >= 0 && wstat_in <= 0xffff);
  ASSUME(errtextlen <= sizeof errtext);
  ASSUME(waitmode <= 1 && errreadfail <= 5 && movefail <= 7);
#ifndef C07_ANY_CUSTOM_TEXT
  /* qmail-queue(8), exit code 82: the text on descriptor 6 is a string "starting with D" or
   * "starting with Z".  A replacement queue program that exits 82 and writes text starting
   * with another byte is outside the documented interface and is assumed away here.
   * JUDGEMENT (recorded, reported): qmail_close() returns such text unvalidated, so text
   * starting with NUL would read as success (""), text starting with 'K' would be relayed
   * by qmail-qmtpd/qmail-qmqpd as a positive reply.  Build with -DC07_ANY_CUSTOM_TEXT to
   * see the counterexample. */
  ASSUME(errtextlen == 0 || errtext[0] == 'D' || errtext[0] == 'Z');
#endif

  if (qmail_open(&q) == -1) {
    CHECK(pipefail < 3 || forkres == -1, "qmail_open fails only when pipe or fork failed");
    for (i = 0; i < 6; ++i) CHECK(!fd_open[i], "failed qmail_open leaks no descriptor");
    CHECK(mn == 0 && en == 0, "failed qmail_open writes nothing");
    WITNESS("open_failed");
    return;
  }
  CHECK(!in_child, "the child never returns from qmail_open");
  CHECK(pipefail >= 3 && forkres > 0, "qmail_open succeeds only with three pipes and a child");
  CHECK(qmail_qp(&q) == (unsigned long) forkres, "qmail_qp is the child's pid");
  CHECK(fd_open[PIM_W - FD0] && fd_open[PIE_W - FD0] && fd_open[PIERR_R - FD0], "parent keeps its three ends");
  CHECK(!fd_open[PIM_R - FD0] && !fd_open[PIE_R - FD0] && !fd_open[PIERR_W - FD0],
        "parent closes the child's ends (else no EOF is ever seen)");

  for (i = 0; i < NM; ++i) {
    if (mop[i]) { qmail_fail(&q); ghost_fail(); }
    qmail_put(&q, (char *) &mbytes[i], 1);
  }
  if (mop[NM]) { qmail_fail(&q); ghost_fail(); }
  qmail_from(&q, sender);
  want[wn++] = 'F';
  for (k = 0; k < AL; ++k) { if (!sender[k]) break; want[wn++] = (unsigned char) sender[k]; }
  want[wn++] = 0;
  for (j = 0; j < NR; ++j) {
    if (rop[j] == 2) continue;
    if (rop[j] == 1) { qmail_fail(&q); ghost_fail(); }
    qmail_to(&q, RCPT(j));
    want[wn++] = 'T';
    for (k = 0; k < AL; ++k) { if (!RCPT(j)[k]) break; want[wn++] = (unsigned char) RCPT(j)[k]; }
    want[wn++] = 0;
  }
  if (rop[NR]) { qmail_fail(&q); ghost_fail(); }
  want[wn++] = 0;

  res = qmail_close(&q);

  crashed = wstat_in & 127;
  exitcode = wstat_in >> 8;
  CHECK(waited, "qmail_close reaps the child");
  CHECK(!fd_open[PIERR_R - FD0], "error pipe closed");

  /* (a) success is reported iff nothing failed and qmail-queue said 0 */
  CHECK((res[0] == 0) == (!failed && !waitmode && !crashed && exitcode == 0),
        "C07(1): qmail_close returns \"\" iff no failure was flagged and qmail-queue exited 0");
  CHECK(res[0] == 0 || res[0] == 'D' || res[0] == 'Z' || (exitcode == 82 && !crashed && !waitmode),
        "C07(1): every failure is reported as D... or Z...");
  if (res[0] == 0) {
    /* (b) then qmail-queue has seen exactly the message and exactly the envelope */
    CHECK(mdel == NM, "C07(1): success => every message byte was delivered");
    for (i = 0; i < NM; ++i) CHECK(macc[i] == mbytes[i], "C07(1): success => message bytes unchanged and in order");
    CHECK(edel == wn, "C07(1): success => the complete envelope was delivered");
    for (i = 0; i < EB; ++i) { if (i >= wn) break; CHECK(eacc[i] == want[i], "C07(1): success => envelope is F sender NUL (T rcpt NUL)* NUL"); }
    CHECK(env_first_put_after_msg_close, "message pipe is closed (EOF) before the envelope is written");
    WITNESS("queued");
  }
  /* (c) a flagged failure leaves the envelope without its terminator: qmail-queue sees
   * EOF first and queues nothing */
  if (failed) {
    CHECK(!env_complete(eacc, edel), "C07(1): after a failure the envelope is never completed");
    if (!waitmode && !crashed && exitcode == 0) WITNESS("failed_but_queue_exit_0");
  }
  /* (d) class of every other outcome, qmail-queue(8) EXIT CODES */
  if (waitmode || crashed) {
    CHECK(res[0] == 'Z', "C07(1): lost or crashed qmail-queue is a temporary failure");
    WITNESS("crashed");
  } else if (exitcode == 0) {
    CHECK(res[0] == 0 || res[0] == 'Z', "C07(1): exit 0 after a local failure is a temporary failure");
  } else if (exitcode == 82) {
    /* custom text from descriptor 6; the interface asks for D... or Z..., at least 3 bytes */
    unsigned int tl = errtextlen;
    if (errreadfail && errreadfail - 1u < tl) tl = errreadfail - 1u;
    for (i = 0; i < sizeof errtext; ++i) if (i < tl && errtext[i] == 0) { tl = i; break; }
    if (tl >= 3 && (errtext[0] == 'D' || errtext[0] == 'Z')) {
      CHECK(res[0] == (char) errtext[0], "C07(1): exit 82 => class of the custom text");
      for (i = 0; i < sizeof errtext; ++i) { if (i >= tl) break; CHECK(res[i] == (char) errtext[i], "C07(1): exit 82 => the custom text is reported"); }
      CHECK(res[tl] == 0, "C07(1): custom text is terminated");
      WITNESS("custom_text");
    } else if (tl < 3) {
      CHECK(res[0] == 'D' || res[0] == 'Z', "C07(1): exit 82 without usable text is still a failure");
    }
  } else if (exitcode >= 11 && exitcode <= 40) {
    CHECK(res[0] == 'D', "C07(1): exit 11..40 is permanent");
    WITNESS("permanent");
  } else if (exitcode <= 99) {
    CHECK(res[0] == 'Z', "C07(1): every other exit code 1..99 is temporary");
    WITNESS("temporary");
  } else {
    CHECK(res[0] == 'D' || res[0] == 'Z', "C07(1): undocumented exit codes are failures");
  }
  WITNESS("closed");
}
