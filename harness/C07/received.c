/* C07(4) - received.c: the Received field written in front of every accepted message.
 * Encoded from /repo: received.c (received, safeput, issafe).
 * Cut: qmail_put -> recorder (unsigned int length: K&R call sites, DESIGN 2.1);
 *      datetime_tai/date822fmt -> fixed 5-byte date (range lemma lives in C20); time().
 * Reference (comment in received.c = the documented format):
 *   "Received: from " HOST [" (HELO " HELO ")"] " (" [INFO "@"] IP ")\n  by " LOCAL " with " PROTO "; " DATE
 * where every byte taken from TCPREMOTEHOST / HELO / TCPREMOTEINFO / TCPREMOTEIP /
 * TCPLOCALHOST is either the original byte, if it is in the safe set
 *   a-z A-Z 0-9 . @ % + / = : - [ ]
 * or the placeholder '?'.  Consequence checked explicitly: the field contains no NUL, no
 * CR, and no LF except the folding one (followed by a space) and the final one, so the
 * peer cannot end the field or inject another header. */
#include "verif.h"
#include "gen_received.c"

#ifndef SL
#define SL 4
#endif
#define OUTMAX (5 * SL + 80)

char s_host[SL + 1], s_helo[SL + 1], s_info[SL + 1], s_ip[SL + 1], s_local[SL + 1];
unsigned char have_helo, have_info;

void sym_inputs(void)
{
#ifdef REPLAY
#include "replay_inputs.inc"
#else
  SYM_ARR(s_host); SYM_ARR(s_helo); SYM_ARR(s_info); SYM_ARR(s_ip); SYM_ARR(s_local);
  SYM(have_helo); SYM(have_info);
#endif
}

static struct qmail theqq;
static unsigned char outb[OUTMAX];
static unsigned int outn;
static unsigned int pos;
static int saw_unsafe, saw_replaced;

void qmail_put(struct qmail *qq, char *s, unsigned int len)
{
  unsigned int i;
  CHECK(qq == &theqq, "received() writes to the queue connection it was given");
  for (i = 0; i < OUTMAX; ++i) {
    if (i >= len) break;
    CHECK(outn < OUTMAX, "harness sizing"); ASSUME(outn < OUTMAX);
    outb[outn++] = (unsigned char) s[i];
  }
  CHECK(len <= OUTMAX, "harness sizing");
}

void datetime_tai(struct datetime *dt, datetime_sec t) { dt->year = 0; }
unsigned int date822fmt(char *s, struct datetime *dt)
{
  s[0] = 'D'; s[1] = 'A'; s[2] = 'T'; s[3] = 'E'; s[4] = '\n';
  return 5;
}
time_t vf_time(time_t *t) { return 812090814; }

static int doc_safe(unsigned char c)
{
  if (c >= 'a' && c <= 'z') return 1;
  if (c >= 'A' && c <= 'Z') return 1;
  if (c >= '0' && c <= '9') return 1;
  return c == '.' || c == '@' || c == '%' || c == '+' || c == '/' || c == '=' || c == ':' || c == '-' || c == '[' || c == ']';
}

static void lit(const char *s)
{
  unsigned int i;
  for (i = 0; i < 24; ++i) {
    if (!s[i]) break;
    CHECK(pos < outn && outb[pos] == (unsigned char) s[i], "C07(4): Received field has the documented fixed text");
    ++pos;
  }
}

static void var(const char *s)
{
  unsigned int i;
  for (i = 0; i < SL; ++i) {
    unsigned char c = (unsigned char) s[i], o;
    if (!c) break;
    CHECK(pos < outn, "C07(4): Received field is complete");
    if (pos >= outn) return;
    o = outb[pos++];
    CHECK(doc_safe(o) || o == '?', "C07(4): peer-supplied byte in Received is a safe character or '?'");
    if (doc_safe(c)) { CHECK(o == c, "C07(4): safe characters name the peer unchanged"); }
    else { saw_unsafe = 1; if (o == '?') saw_replaced = 1; }
  }
}

void vmain(void)
{
  unsigned int i, nlf = 0;
  sym_inputs();
  s_host[SL] = s_helo[SL] = s_info[SL] = s_ip[SL] = s_local[SL] = 0;
  ASSUME(have_helo <= 1 && have_info <= 1);

  received(&theqq, "SMTP", s_local, s_ip, s_host, have_info ? s_info : (char *) 0, have_helo ? s_helo : (char *) 0);

  lit("Received: from "); var(s_host);
  if (have_helo) { lit(" (HELO "); var(s_helo); lit(")"); }
  lit(" (");
  if (have_info) { var(s_info); lit("@"); }
  var(s_ip);
  lit(")\n  by "); var(s_local);
  lit(" with "); lit("SMTP"); lit("; "); lit("DATE\n");
  CHECK(pos == outn, "C07(4): nothing follows the date");

  for (i = 0; i < OUTMAX; ++i) {
    if (i >= outn) break;
    CHECK(outb[i] != 0 && outb[i] != '\r', "C07(4): no NUL or CR in the Received field");
    if (outb[i] == '\n') {
      ++nlf;
      CHECK(i + 1 == outn || outb[i + 1] == ' ', "C07(4): a line break inside the field is followed by white space");
    }
  }
  CHECK(nlf == 2 && outn > 0 && outb[outn - 1] == '\n', "C07(4): exactly one folded line break and the final newline");
  if (saw_replaced) WITNESS("unsafe_byte_replaced");
  if (have_helo && have_info && !saw_unsafe && s_host[SL - 1] && s_helo[SL - 1] && s_info[SL - 1] && s_ip[SL - 1] && s_local[SL - 1])
    WITNESS("all_fields_full_length");
  if (!have_helo && !have_info) WITNESS("no_helo_no_info");
  WITNESS("done");
}
