/* qmqp_template.h - template families for qmail-qmqpd (DESIGN C07 "Bounds"): a concrete,
 * valid frame with the symbolic bytes '?' placed where the decisions are made.  The claim
 * of a template query covers exactly the requests that match its template.
 *
 * TEMPLATE 1, filler TL:   NN:  1:m,  0:,  ???  ? a..a ?  ?  ?
 *     one recipient netstring with symbolic length field, separator, first and last
 *     payload byte and terminator, and a symbolic outer terminator; NN = 11 + TL.
 * TEMPLATE 3, TS:          NN:  1:m,  ??  ?*TS  ?  2:rc,  ,
 *     sender netstring with symbolic length digit, separator, bytes and terminator.
 * TEMPLATE 5, AL:          NNNN:  1:m,  0:,  AL:  ? a..a ?  ,  ,
 *     one recipient of AL = 999, 1000 bytes (first and last byte symbolic): the length limit. */
#if TEMPLATE == 1
#ifndef TL
#define TL 0
#endif
#define N (16 + TL)
static void template_fill(unsigned char *b)
{
  unsigned int p = 0, i;
  b[p++] = '0' + (11 + TL) / 10; b[p++] = '0' + (11 + TL) % 10; b[p++] = ':';
  b[p++] = '1'; b[p++] = ':'; b[p++] = 'm'; b[p++] = ',';
  b[p++] = '0'; b[p++] = ':'; b[p++] = ',';
  p += 3;                                   /* length field and separator */
  for (i = 0; i < TL; ++i) { if (i != 0 && i != TL - 1) b[p] = 'a'; ++p; }
  p += 2;                                   /* terminators */
}
#elif TEMPLATE == 3
#ifndef TS
#define TS 2
#endif
#define N (16 + TS)
static void template_fill(unsigned char *b)
{
  unsigned int p = 0;
  b[p++] = '0' + (12 + TS) / 10; b[p++] = '0' + (12 + TS) % 10; b[p++] = ':';
  b[p++] = '1'; b[p++] = ':'; b[p++] = 'm'; b[p++] = ',';
  p += 2 + TS + 1;
  b[p++] = '2'; b[p++] = ':'; b[p++] = 'r'; b[p++] = 'c'; b[p++] = ',';
  b[p++] = ',';
}
#elif TEMPLATE == 5
#ifndef AL
#define AL 1000
#endif
#define MAXR 2                              /* the frame is concrete: one recipient */
#define DIGITS(x) ((x) >= 1000 ? 4 : (x) >= 100 ? 3 : (x) >= 10 ? 2 : 1)
#define OUTER (7 + DIGITS(AL) + 1 + AL + 1)
#define N (DIGITS(OUTER) + 1 + OUTER + 1)
static unsigned int put_num(unsigned char *b, unsigned int p, unsigned int x)
{
  if (x >= 1000) b[p++] = '0' + (x / 1000) % 10;
  if (x >= 100) b[p++] = '0' + (x / 100) % 10;
  if (x >= 10) b[p++] = '0' + (x / 10) % 10;
  b[p++] = '0' + x % 10;
  return p;
}
static void template_fill(unsigned char *b)
{
  unsigned int p = 0, i;
  p = put_num(b, p, OUTER); b[p++] = ':';
  b[p++] = '1'; b[p++] = ':'; b[p++] = 'm'; b[p++] = ',';
  b[p++] = '0'; b[p++] = ':'; b[p++] = ',';
  p = put_num(b, p, AL); b[p++] = ':';
  for (i = 0; i < AL; ++i) { if (i != 0 && i != AL - 1) b[p] = 'a'; ++p; }
  b[p++] = ','; b[p++] = ',';
}
#endif
