# kills (see DESIGN.md): case 'Z' falling into markdone; --numtodo on Z; addbounce after markdone; mangled report calling markdone;
#        delnum range check `>=` -> `>`; missing `!d[c][delnum].used` test; flagdying ignored
from vlib import Obl, Prog

STR = ["stralloc_catb.c", "stralloc_opyb.c", "stralloc_pend.c", "stralloc_cats.c", "stralloc_opys.c",
       "stralloc_copy.c", "stralloc_cat.c", "byte_copy.c"]

def obligations(tier):
    if tier == "quick":
        grid = [{"R": r, "P": p, "STRICT": 1, "CH": c} for (r, p, c) in ((3, 0, 0), (5, 0, 1), (4, 1, 0))] + [{"R": 4, "P": 1, "STRICT": 0, "CH": 1}]
    else:
        grid = [{"R": r, "P": p, "STRICT": 1, "CH": (r + p) % 2} for r in (3, 5, 6, 7) for p in (0, 1, 2)] + \
               [{"R": r, "P": p, "STRICT": 0, "CH": p} for r in (5, 7) for p in (0, 1)]
    return [
        Obl("del_dochan", "del_dochan.c",
            progs=[Prog("qmail-send.c", nomain=True, cut=["markdone", "addbounce", "job_close", "del_status"])],
            repo=STR, lib=["arena_stralloc.c"], defines={"ARENA_CAP": 128, "ARENA_SLOTS": 6}, sysrename=["read"],
            grid=grid, unwind_default=lambda p: p["R"] + p["P"] + 6, unwind={"byte_copy": 80},
            timeout=900 if tier == "quick" else 3400,
            functions=["qmail-send.c:del_dochan", "qmail-send.c:spawndied", "stralloc_pend.c:stralloc_append", "stralloc_cats.c"],
            cuts=["markdone -> observed (proved separately: obligation markdone)", "addbounce -> observed (C14)",
                  "job_close -> observed (obligation job_close)", "del_status, log* -> no-ops"],
            assumes=["pre-state: any valid daemon state with concurrency 3, 2 job slots, symbolic slots/jobs, P left-over bytes in dline; "
                     "read returns R symbolic bytes, or 0, or -1",
                     "STRICT=1: stream never contains an empty report (two NULs in a row), as the spawners guarantee; STRICT=0: any bytes"],
            outside=["reports longer than R+P bytes; REPORTMAX (10000) truncation is not executed at its real size"],
            claim="per report: effects exactly as documented (K mark; D bounce note then mark; Z nothing unless expired; garbled nothing), "
                  "invalid/unused delnum no effect, lost spawner/read error no effect, concurrencyused stays equal to slots in use; "
                  "for arbitrary bytes every D mark is justified by a delivery in flight, at its own offset, once",
            expect_witnesses=lambda p: ["spawner_died", "no_effect"] + (["deferral_or_garbled", "success_marked"] if p["R"] + p["P"] >= 3 else [])
                             + (["permanent_failure_bounced"] if p["R"] + p["P"] >= 3 else [])
                             + (["two_reports_in_one_read"] if p["R"] + p["P"] >= 6 and p["STRICT"] else [])),
    ]
