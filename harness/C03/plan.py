# kills (see DESIGN.md): case 'Z' falling into markdone; --numtodo on Z; addbounce after markdone; mangled report calling markdone;
#        delnum range check `>=` -> `>`; missing `!d[c][delnum].used` test; flagdying ignored
from vlib import Obl, Prog, borrow

STR = ["stralloc_catb.c", "stralloc_opyb.c", "stralloc_pend.c", "stralloc_cats.c", "stralloc_opys.c",
       "stralloc_copy.c", "stralloc_cat.c", "byte_copy.c"]

def obligations(tier):
    if tier == "quick":
        grid = [{"R": r, "P": p, "STRICT": 1, "CH": c} for (r, p, c) in ((3, 0, 0), (5, 0, 1), (4, 1, 0), (6, 0, 1))] + [{"R": 4, "P": 1, "STRICT": 0, "CH": 1}]   # R=6: two complete reports in one read
    else:
        grid = [{"R": r, "P": p, "STRICT": 1, "CH": (r + p) % 2} for r in (3, 5, 6, 7) for p in (0, 1, 2)] + \
               [{"R": r, "P": p, "STRICT": 0, "CH": p} for r in (5, 7) for p in (0, 1)]
    steps = []
    SYS = ["stat", "unlink", "open", "fstat", "lseek", "write", "close", "read", "time", "utimes"]
    UNITS = STR + ["fmtqfn.c", "fmt_ulong.c", "fmt_str.c", "auto_split.c", "open_write.c"]
    for (name, mode, funcs, wit, claim) in (
        ("job_close", 1, ["qmail-send.c:job_close"],
         ["still_referenced", "requeued_for_retry", "unlink_failed_requeued", "other_channel_going", "handed_to_pqdone"],
         "C03(3): channel file unlinked iff the pass hit EOF with numtodo==0 and no attempt in flight; in every other case and on every failure the message is re-inserted (pqchan at its retry time / soon, or pqdone)"),
        ("markdone", 2, ["qmail-send.c:markdone"], ["marked", "mark_failed_before_write"],
         "C04: markdone writes exactly the single byte 'D' at the given offset of the recipient's own channel file, only after open+seek succeeded, and closes the descriptor on every path"),
        ("messdone", 3, ["qmail-send.c:messdone"], ["message_finished", "false_alarm", "already_gone", "failure_rescheduled"],
         "C03(4)/C02: info/N is unlinked and foop/N requested only after local, remote, todo were seen ENOENT and injectbounce succeeded; every failure re-schedules on pqdone"),
        ("pqadd", 5, ["qmail-send.c:pqadd"], ["stat_failed", "no_info", "todo_pending", "both_channels", "done_only"],
         "C03(6)/C15: restart puts the message on the queue of every existing channel file with due time = its mtime, on pqdone if none, on pqfail after a stat error"),
        ("cleanup_do", 6, ["qmail-send.c:cleanup_do"], ["stale_file_collected", "young_or_live_file_kept"],
         "C02: foop/N is requested for a mess file only if it is older than OSSIFIED and info/N and todo/N are both ENOENT"),
        ("pqrun", 7, ["qmail-send.c:pqrun", "prioq.c"], ["all_due"],
         "C15: pqrun (ALRM) sets the due time of every entry of both channel queues to now, losing none"),
        ("pqfinish", 8, ["qmail-send.c:pqfinish", "prioq.c:prioq_min", "prioq.c:prioq_delmin"], ["schedule_saved"],
         "C15: pqfinish writes every entry's due time to the mtime of its own channel file (exactly once each) and drains the queues"),
    ):
        chans = [0, 1] if mode in (1, 2) else [0]
        extra_units = ["prioq.c"] if mode in (7, 8) else []
        steps.append(Obl(name, "steps.c",
            progs=[Prog("qmail-send.c", nomain=True, cut=["injectbounce"])], repo=UNITS + extra_units, lib=["arena_stralloc.c"],
            defines={"ARENA_CAP": 64, "ARENA_SLOTS": 6, "MODE": mode}, sysrename=SYS,
            grid=[{"CH": c} for c in chans], unwind_default=44, timeout=600,
            functions=funcs + ["qmail-send.c:fnmake_*", "fmtqfn.c:fmtqfn"],
            cuts=["prioq_insert -> observed (C15 prioq_step proves the heap)", "injectbounce -> symbolic result (C14)",
                  "readsubdir_next -> symbolic result", "log* -> no-ops"],
            stubs=["stat/unlink/open/fstat/lseek/write/close: outcome of every call symbolic (tape); existence and times of the message's files symbolic"],
            assumes=["one message with a concrete number (path names concrete), arbitrary pre-state of its files, any number of failing calls"],
            claim=claim, expect_witnesses=wit))
    steps.append(Obl("pass_dochan", "pass.c",
        progs=[Prog("qmail-send.c", nomain=True, cut=["getinfo", "nextretry", "del_avail", "del_start", "job_close"])],
        repo=UNITS + ["open_read.c", "substdio.c"], lib=["arena_stralloc.c", "ideal_substdio.c", "ideal_getln.c"],
        defines={"ARENA_CAP": 64, "ARENA_SLOTS": 8}, sysrename=["open", "close", "read"],
        grid=[{"CH": c, "RL": r} for (c, r) in (((0, 4), (1, 3)) if tier == "quick" else ((0, 4), (1, 4), (0, 6), (1, 6)))],
        unwind_default=lambda p: p["RL"] + 8, timeout=600 if tier == "quick" else 2400,
        functions=["qmail-send.c:pass_dochan", "qmail-send.c:job_open", "qmail-send.c:job_avail", "qmail-send.c:fnmake_chanaddr"],
        cuts=["getinfo -> symbolic result", "nextretry -> observed, symbolic result (C15 nextretry obligation)", "del_avail -> symbolic",
              "del_start, job_close -> observed", "prioq_* -> one-element queue kept by the harness (C15 prioq_step)", "getln -> ideal stream"],
        assumes=["arbitrary state: idle (entry due or not, job slot free or not) or mid-pass at an arbitrary offset; next RL bytes of the channel file symbolic; "
                 "open/getinfo/read may fail"],
        claim="C15: a pass starts only when the entry is due; C04: entry off the queue while the job is open, D records never started, "
              "nothing started after TERM or without a free slot; C03(2): exactly one del_start per T record with the offset of its first byte, "
              "numtodo counts T records, read errors/garbage abandon the pass without flaghiteof, open trouble re-queues",
        expect_witnesses=["exitasap_nothing_started", "not_due_yet", "open_trouble_requeued", "pass_started", "no_slot_waits",
                          "read_error_abandons_pass", "end_of_file", "T_record_started", "D_record_skipped", "unknown_record_abandons_pass"]))
    steps.append(Obl("todo_do", "todo.c",
        progs=[Prog("qmail-send.c", nomain=True, cut=["rewrite"]), Prog("fmt_ulong.c", cut=["fmt_ulong"], link=True)],
        repo=[u for u in UNITS if u != "fmt_ulong.c"] + ["open_read.c", "open_excl.c", "substdio.c", "scan_ulong.c"],
        lib=["arena_stralloc.c", "ideal_substdio.c", "ideal_getln.c"],
        defines={"ARENA_CAP": 64, "ARENA_SLOTS": 8},
        sysrename=["open", "close", "read", "write", "stat", "unlink", "fsync", "readdir", "closedir", "opendir", "time"],
        grid=[{"E": e} for e in ((5, 6) if tier == "quick" else (5, 6, 7, 8))],
        unwind_default=lambda p: max(p["E"] + 6, 20),
        unwind=lambda p: {"todo_do~for (;;)": p["E"] + 2, "getln": p["E"] + 2, "ref_parse": p["E"] + 2, "rewrite": p["E"] + 2,
                          "byte_copy": p["E"] + 3, "substdio_put": max(p["E"] + 3, 10), "ideal_flush": p["E"] + 5, "scan_ulong": p["E"] + 2},
        timeout=900 if tier == "quick" else 3400,
        functions=["qmail-send.c:todo_do", "qmail-send.c:fnmake_*", "fmtqfn.c:fmtqfn", "scan_ulong.c", "open_excl.c", "open_read.c"],
        cuts=["rewrite -> observing stub (rwline = T ++ address ++ NUL, channel from the tape); routing rules are C10",
              "prioq_insert -> observed", "trigger_*, log* -> no-ops"],
        stubs=["ideal buffered streams with a pending buffer per file; one symbolic call among flush/fsync/open/unlink/stat/read fails (single-failure quantifier)",
               "leftover info/local/remote of a crashed earlier attempt may exist"],
        assumes=["todo/N holds E symbolic bytes with at most one F record (format written by qmail-queue, C01); message number concrete; directory stream already open and returning this entry"],
        outside=["envelopes longer than E bytes"],
        claim="C02: info/local/remote are removed, re-created, fully written, fsynced and closed before the todo/N request; nothing scheduled before the cleaner's '+'; "
              "C03(5)/C10: each T record yields exactly one T record in exactly one channel file, in order; info = F record; any failure leaves todo/N and schedules nothing",
        expect_witnesses=lambda p: ["failure_leaves_todo", "unknown_record_leaves_todo", "committed_and_scheduled", "cleaner_refused", "no_recipients_done"]
                         + (["both_channels_scheduled"] if p["E"] >= 6 else [])))
    # "oversized reports are truncated": REPORTMAX (10000) cannot be executed at its real size, so the truncation logic
    # is checked on a regenerated copy whose only edit is the value of that constant (the edit fails loudly if the
    # #define is no longer there); stated as such in the evidence
    steps.append(Obl("del_dochan_truncation", "del_dochan.c",
        progs=[Prog("qmail-send.c", nomain=True, cut=["markdone", "addbounce", "job_close", "del_status"],
                    sub=[(r"^#define REPORTMAX 10000$", "#define REPORTMAX 4", 1)])],
        repo=STR, lib=["arena_stralloc.c"], defines={"ARENA_CAP": 128, "ARENA_SLOTS": 6}, sysrename=["read"],
        grid=[{"R": 6, "P": 0, "STRICT": 1, "CH": 0}, {"R": 4, "P": 2, "STRICT": 1, "CH": 1}] if tier == "quick" else
             [{"R": r, "P": p, "STRICT": 1, "CH": (r + p) % 2} for r in (5, 6, 7) for p in (0, 2)],
        unwind_default=lambda p: p["R"] + p["P"] + 6, unwind={"byte_copy": 80, "vmain~ARENA_CAP": 130, "addbounce": 100}, timeout=900 if tier == "quick" else 3400,
        functions=["qmail-send.c:del_dochan (REPORTMAX scaled to 4)"],
        cuts=["markdone, addbounce, job_close -> observed", "REPORTMAX 10000 -> 4 in the regenerated copy (parametric check of the truncation logic)"],
        assumes=["as del_dochan; reports of up to 7 bytes against REPORTMAX=4, report buffer pre-filled with non-zero garbage"],
        outside=["the real constant 10000 is not executed; that the code is uniform in REPORTMAX is an argument, not a verdict"],
        claim="C18: an oversized report is truncated to REPORTMAX bytes, keeps its verdict, and the text handed on is NUL-terminated inside the truncated report",
        expect_witnesses=["success_marked", "permanent_failure_bounced"]))
    # C03(4) second half: injectbounce() returns 1 and unlinks bounce/N only if the notice naming the failed recipients
    # was queued completely (shared with C14)
    steps += borrow("C14", ["injectbounce"], tier)
    return steps + [
        Obl("del_dochan", "del_dochan.c",
            progs=[Prog("qmail-send.c", nomain=True, cut=["markdone", "addbounce", "job_close", "del_status"])],
            repo=STR, lib=["arena_stralloc.c"], defines={"ARENA_CAP": 128, "ARENA_SLOTS": 6}, sysrename=["read"],
            grid=grid, unwind_default=lambda p: p["R"] + p["P"] + 6, unwind={"byte_copy": 80, "vmain~ARENA_CAP": 130, "addbounce": 100},
            timeout=900 if tier == "quick" else 3400,
            functions=["qmail-send.c:del_dochan", "qmail-send.c:spawndied", "stralloc_pend.c:stralloc_append", "stralloc_cats.c"],
            cuts=["markdone -> observed (proved separately: obligation markdone)", "addbounce -> observed (C14)",
                  "job_close -> observed (obligation job_close)", "del_status, log* -> no-ops"],
            assumes=["pre-state: any valid daemon state with concurrency 3, 2 job slots, symbolic slots/jobs, P left-over bytes in dline; "
                     "read returns R symbolic bytes, or 0, or -1",
                     "STRICT=1: stream never contains an empty report (two NULs in a row), as the spawners guarantee; STRICT=0: any bytes"],
            outside=["reports longer than R+P bytes; REPORTMAX (10000) truncation is not executed at its real size"],
            claim="per report: effects exactly as documented (K mark; D bounce note then mark; Z nothing unless expired; garbled nothing), "
                  "invalid/unused delnum no effect, lost spawner/read error no effect, concurrencyused stays equal to slots in use; "
                  "for arbitrary bytes every D mark is justified by a delivery in flight, at its own offset, once",
            expect_witnesses=lambda p: ["spawner_died", "no_effect"] + (["deferral_or_garbled", "success_marked"] if p["R"] + p["P"] >= 3 else [])
                             + (["permanent_failure_bounced"] if p["R"] + p["P"] >= 3 else [])
                             + (["two_reports_in_one_read"] if p["R"] + p["P"] >= 6 and p["STRICT"] else [])),
    ]


# ---------------------------------------------------------------------------------------------------------------
# h1: which message numbers a (re)started daemon looks at, and how numbers map to file names
# (readsubdir.c, pqstart, fmtqfn.c, the name filter of todo_do).  Appended; the obligations above are unchanged.
_obligations_base = obligations


def h1_obligations(tier):
    quick = tier == "quick"
    obls = []
    # kills (fmtqfn_names; each VIOLATION with a reproducing native replay):
    #   fmtqfn.c `if (s) *s++ = 0; ++len;` -> `++len` dropped (returned length one short of the terminator) and -> `if (s) { *s++ = 0; ++len; }`
    #   (length announced for s == 0 one short of what is written: qmail-queue's fnnum() would alloc one byte too few);
    #   `id % auto_split` -> `id / auto_split`;  `i = fmt_str(s,"/"); len += i` -> `len += i` dropped;
    #   `id % auto_split` -> `(unsigned int) id % auto_split` (seen only by the ABS=1 SPLIT=3 point: needs an id >= 2^32);
    #   fmt_ulong.c `while (q > 9)` -> `while (q > 10)` (10 is written starting one byte before the buffer)
    obls.append(Obl("fmtqfn_names", "fmtqfn.c",
        progs=[Prog("fmt_ulong.c", cut=["fmt_ulong"], link=True)],      # ABS=0: harness passes straight through to the real one
        repo=["fmtqfn.c", "fmt_str.c", "auto_split.c"],
        grid=([{"ABS": 0, "SPLIT": 23, "DIG": 4, "DL": 5}, {"ABS": 0, "SPLIT": 1, "DIG": 4, "DL": 7}, {"ABS": 0, "SPLIT": 2, "DIG": 4, "DL": 0},
               {"ABS": 0, "SPLIT": 23, "DIG": 5, "DL": 10}, {"ABS": 1, "SPLIT": 2, "DIG": 20, "DL": 10}, {"ABS": 1, "SPLIT": 3, "DIG": 20, "DL": 7}]
              if quick else
              [{"ABS": 0, "SPLIT": s, "DIG": d, "DL": l} for (s, d, l) in ((23, 4, 5), (1, 4, 7), (2, 4, 0), (3, 5, 6), (23, 5, 10), (23, 6, 5), (2, 7, 7), (23, 7, 5))]
              + [{"ABS": 1, "SPLIT": s, "DIG": 20, "DL": l} for (s, l) in ((2, 10), (1, 0), (3, 7), (23, 5))]),   # odd SPLIT: 64-bit divider equivalence, 100-400 s
        unwind=lambda p: {"fmt_ulong_real": p["DIG"] + 1, "fmt_ulong": 21, "fmt_str": p["DL"] + 2, "ref_number": min(p["DIG"] + 2, 22), "ref_ndigits": 21},
        unwind_default=50, backend="cadical", timeout=600 if quick else 2400,
        functions=["fmtqfn.c:fmtqfn", "fmt_ulong.c:fmt_ulong (ABS=0)", "fmt_str.c:fmt_str"],
        cuts=["fmt_ulong -> ABS=0: the real one (renamed, called straight through); ABS=1: contract 'returns the digit count of u and writes that many bytes', "
              "decided for the real fmt_ulong by the ABS=0 points up to DIG digits"],
        assumes=["ABS=0: id < 10^DIG, auto_split = SPLIT; ABS=1: every 64-bit id, auto_split = SPLIT or (SPLIT=0) any value 1..10^7-1",
                 "flagsplit in {0,1}; dirslash = DL symbolic non-NUL bytes, DL <= 10"],
        outside=["the decimal digits themselves for ids of more than DIG digits (5 quick / 7 thorough); dirslash longer than 10 bytes; "
                 "auto_split >= 10^8 (a 20-digit id then exceeds FMTQFN = 40 with a 10-byte dirslash: 10+9+1+20+1)"],
        claim="C02/C03 (file naming): fmtqfn writes dirslash ++ [decimal(id mod split) ++ '/'] ++ decimal(id) ++ NUL in canonical decimal, "
              "returns the number of bytes written, the same number for s == 0, never more than FMTQFN, and touches nothing beyond it",
        expect_witnesses=lambda p: ["split_name", "split_name_wrapped", "flat_name"] + (["split_of_a_64_bit_number"] if p["ABS"] else [])))
    # kills (readsubdir_scan; each VIOLATION with a reproducing native replay):
    #   readsubdir.c `if (!len || d->d_name[len]) return -2` -> `if (!len) return -2` ("12a" handed out as 12);
    #   `while (!(rs->dir = opendir(..))) rs->pause(..)` -> `if (..) rs->pause(..)` (subdirectory skipped after one failed opendir);
    #   same loop without the pause call (busy retry);  `rs->pos >= auto_split` -> `>= auto_split - 1` (last subdirectory forgotten) and -> `>` (opens <dir>/<split>);
    #   closedir dropped at the end of a subdirectory (stream leak);  fmt_ulong(.., rs->pos) -> rs->pos + 1;  `return -2` -> `return 0` (scan ends at the first stray file);
    #   scan_ulong.c `< 10` -> `<= 10` (':' taken as a digit)
    # not killed: deleting the `str_equal(d->d_name,".")` test - equivalent, "." has no digits and falls into the -2 exit
    DIRSYS = ["opendir", "readdir", "closedir"]
    dgrid = ([{"SPLIT": 2, "K": 3, "NL": 3, "OF": 1}, {"SPLIT": 3, "K": 2, "NL": 2, "OF": 2}, {"SPLIT": 1, "K": 4, "NL": 4, "OF": 0}] if quick else
             [{"SPLIT": 2, "K": 3, "NL": 3, "OF": 1}, {"SPLIT": 3, "K": 2, "NL": 2, "OF": 2}, {"SPLIT": 1, "K": 4, "NL": 4, "OF": 0},
              {"SPLIT": 2, "K": 4, "NL": 4, "OF": 1}, {"SPLIT": 3, "K": 3, "NL": 3, "OF": 1}, {"SPLIT": 4, "K": 2, "NL": 3, "OF": 1},
              {"SPLIT": 7, "K": 1, "NL": 2, "OF": 1}])       # the real conf-split (23) does not close: no verdict in 600 s, 2.4 GB
    obls.append(Obl("readsubdir_scan", "rsd_scan.c",
        repo=["readsubdir.c", "scan_ulong.c", "fmt_ulong.c", "fmt_str.c", "auto_split.c"], sysrename=DIRSYS,
        grid=dgrid,
        unwind=lambda p: {"readsubdir_next": p["OF"] + 2, "scan_ulong": p["NL"] + 2, "fmt_ulong": 3, "fmt_str": 6,
                          "vmain": p["SPLIT"] * (p["K"] + 2) + 3},
        unwind_default=lambda p: max(24, p["SPLIT"] * p["K"] * (p["NL"] + 1) + 2, p["SPLIT"] * (p["K"] + 2) + 3), timeout=600,
        functions=["readsubdir.c:readsubdir_init", "readsubdir.c:readsubdir_next", "scan_ulong.c:scan_ulong"],
        stubs=["opendir/readdir/closedir: harness/C03/dirmodel.h - SPLIT subdirectories of 0..K entries each, every name byte symbolic (NL bytes), "
               "each opendir fails 0..OF times before it succeeds"],
        assumes=["directory name 'mess' (concrete, <= READSUBDIR_NAMELEN); entry names non-empty, at most NL bytes; readdir does not fail half way",
                 "contract assumed for a failing opendir: pause callback, then retry, never skip"],
        outside=["names longer than NL bytes (numbers overflowing 64 bits), more than K entries per subdirectory, auto_split other than 1..4"],
        claim="C03/C02/C04 (restart, cleanup scan): every subdirectory 0..split-1 is opened (retrying after a pause when opendir fails), read to its end and closed; "
              "every entry whose name is a decimal number is handed out exactly once with that value, no other entry ('.', '..', dot files, mixed names) "
              "yields a number, nothing is invented or repeated, and the scan ends with 0",
        expect_witnesses=lambda p: ["number_handed_out", "all_entries_numbers", "dot_name_skipped", "other_name_skipped", "empty_subdirectory", "scan_complete"]
                         + (["opendir_failed_paused_retried"] if p["OF"] else [])))
    # kills (pqstart_all): qmail-send.c pqstart `if (x > 0)` -> `if (x >= -1)` (pqadd for "." / for the open step, stale id) and -> `if (x != -1)` (stray files scheduled);
    #   `while ((x = readsubdir_next(..)))` -> `while ((x = ..) > 0)` (scan stops at the first non-message);  "info" -> "mess";
    #   readsubdir.c skip-after-failed-opendir and last-subdirectory-forgotten (as above)
    obls.append(Obl("pqstart_all", "pqstart.c",
        progs=[Prog("qmail-send.c", nomain=True, cut=["pqadd"])],
        repo=["readsubdir.c", "scan_ulong.c", "fmt_ulong.c", "fmt_str.c", "auto_split.c"], sysrename=DIRSYS,
        grid=dgrid,
        unwind=lambda p: {"readsubdir_next": p["OF"] + 2, "scan_ulong": p["NL"] + 2, "fmt_ulong": 3, "fmt_str": 6,
                          "pqstart": p["SPLIT"] * (p["K"] + 2) + 3},
        unwind_default=lambda p: max(24, p["SPLIT"] * p["K"] * (p["NL"] + 1) + 2), timeout=600,
        functions=["qmail-send.c:pqstart", "readsubdir.c:readsubdir_init", "readsubdir.c:readsubdir_next", "scan_ulong.c:scan_ulong"],
        cuts=["pqadd -> observed (obligation pqadd decides what happens with each number)", "pausedir -> the model's pause callback"],
        stubs=["opendir/readdir/closedir: harness/C03/dirmodel.h over 'info' (see readsubdir_scan)"],
        assumes=["as readsubdir_scan"],
        outside=["as readsubdir_scan"],
        claim="C03 (restart): pqstart calls pqadd exactly once for every numbered file of info/0 .. info/<split-1>, with that number, and for nothing else, "
              "whatever else lies in those directories and however often opendir fails first",
        expect_witnesses=lambda p: ["message_scheduled", "all_entries_messages", "nothing_to_schedule", "dot_name_skipped", "other_name_skipped", "restart_scan_complete"]
                         + (["opendir_failed_paused_retried"] if p["OF"] else [])))
    # kills (todo_scan_names): qmail-send.c todo_do `if (!len || dent->d_name[len]) return` -> `if (!len) return` ("12a" preprocessed as 12);
    #   fnmake_mess flagsplit 1 -> 0 (mess/N instead of mess/<N mod split>/N);  fnmake_todo flagsplit 0 -> 1;  `if (fd != -1) close(fd)` dropped at fail: (descriptor leak);
    #   `tododir = 0` dropped after closedir (closed stream used again);  scan_ulong.c `< 10` -> `<= 10`
    # not killed: deleting the `str_equal(dent->d_name,".")` test - equivalent (no digits -> len == 0 -> return)
    obls.append(Obl("todo_scan_names", "todo_names.c",
        progs=[Prog("qmail-send.c", nomain=True)],
        repo=["fmtqfn.c", "fmt_ulong.c", "fmt_str.c", "auto_split.c", "open_read.c", "scan_ulong.c"], lib=["arena_stralloc.c"],
        defines={"ARENA_CAP": 64, "ARENA_SLOTS": 4},
        sysrename=["open", "close", "stat", "unlink", "readdir", "closedir", "opendir", "time"],
        grid=([{"NL": 3, "SPLIT": 23}, {"NL": 4, "SPLIT": 2}] if quick else [{"NL": 3, "SPLIT": 23}, {"NL": 4, "SPLIT": 2}, {"NL": 4, "SPLIT": 23}, {"NL": 5, "SPLIT": 3}]),
        unwind=lambda p: {"scan_ulong": p["NL"] + 2, "fmt_ulong": p["NL"] + 1, "fmt_str": 7, "same": 18 + p["NL"]},
        unwind_default=lambda p: 24 + p["NL"], backend="cadical", timeout=600,
        functions=["qmail-send.c:todo_do (up to its first failure exit)", "qmail-send.c:fnmake_todo", "qmail-send.c:fnmake_mess", "fmtqfn.c:fmtqfn", "scan_ulong.c:scan_ulong", "open_read.c"],
        cuts=["trigger_*, log* -> no-ops", "prioq_insert -> must not be reached"],
        stubs=["readdir: one entry with NL symbolic name bytes, or the end of the directory; open(todo/N) succeeds or fails; stat(mess/..) always fails (EIO)"],
        assumes=["directory stream already open; entry name non-empty, at most NL bytes; auto_split = SPLIT"],
        outside=["names longer than NL bytes (numbers that overflow 64 bits wrap in scan_ulong); what preprocessing does after mess/.. was examined (obligation todo_do, fixed name)"],
        claim="C03/C02 (which todo entries are messages): a canonical decimal name N is preprocessed as message N (todo/N opened once, mess/<N mod split>/N examined); "
              "'.', '..', dot files and every name that is not entirely digits touch nothing; a digits-with-leading-zeros name is either ignored or taken by value; "
              "the envelope descriptor is closed on the failure exit",
        expect_witnesses=["end_of_directory", "number_preprocessed", "open_failed_left_for_next_scan", "number_beyond_split", "leading_zero_name_taken_by_value",
                          "dot_name_skipped", "other_name_skipped"]))
    return obls


def obligations(tier):   # noqa: F811  (wraps the definition above)
    return _obligations_base(tier) + h1_obligations(tier)
