/* C03 / C02 - qmail-send.c todo_do(): which entries of todo/ it takes for message numbers.
 * (The obligation todo_do in todo.c runs the whole preprocessing for one fixed,
 * well-formed name; this one makes the NAME symbolic and stops after the first two files
 * are named.)
 *
 * Encoded from /repo: qmail-send.c todo_do (real, entered with the directory stream open),
 * fnmake_todo, fnmake_mess, fmtqfn.c, fmt_ulong.c, fmt_str.c, scan_ulong.c, open_read.c.
 * Environment: readdir returns one entry whose name is NL symbolic bytes (or the end of
 * the directory); open(todo/N) succeeds or fails; stat(mess/..) always fails, which sends
 * the code to its `fail:` exit before anything is removed or created.
 *
 * Reference (INTERNALS.md sections 2-4: "todo/457: the envelope ..", "When qmail-send
 * notices todo/457, it knows that message 457 is in S4"; mess is a split directory:
 * mess/<457 mod split>/457):
 *   - a name that is the canonical decimal spelling of N is preprocessed as message N:
 *     todo/<name> is opened (exactly once), then mess/<N mod split>/<N> is examined;
 *   - "." and "..", every other name starting with '.', and every name that is not
 *     entirely decimal digits is not a message: no file is opened, examined, removed or
 *     created, nothing is scheduled, the cleaner is not asked for anything;
 *   - documents silent: a name of digits with leading zeros ("007"; qmail-queue never
 *     creates one, see fmtqfn_names).  Accepted: ignoring it, or treating it as message 7
 *     under either spelling (todo/007 or todo/7) - the code does the latter (todo/7);
 *   - whatever happens, the descriptor of todo/N is closed again on the failure exit.
 * Outside: names longer than NL bytes (numbers overflowing 64 bits).
 */
#include "verif.h"
#include <errno.h>
#include <sys/types.h>
#include <sys/stat.h>
#include <dirent.h>
#include <fcntl.h>
#include "stralloc.h"
#include "gen_qmail-send.c"
#include "auto_split.h"

#ifndef NL
#define NL 3
#endif
#ifndef SPLIT
#define SPLIT 23
#endif
#define NOW 5000000L

unsigned char in_name[NL + 1];
unsigned char in_have_entry;         /* 0: readdir reports the end of the directory */
unsigned char in_open_fails;

void sym_inputs(void)
{
#ifdef REPLAY
#include "replay_inputs.inc"
#else
  SYM_ARR(in_name); SYM(in_have_entry); SYM(in_open_fails);
#endif
}

/* ---------------- reference: classification of the name and the two expected paths */
static int ref_isnum, ref_canon, ref_dot;
static unsigned int ref_val;
static char want_todo_raw[8 + NL], want_todo_val[8 + NL], want_mess[16 + NL];

static unsigned int put_num(char *s, unsigned int u)        /* u < 10^NL, NL <= 8 */
{
  char t[12]; unsigned int n = 0, k;
  for (k = 0; k < 10; ++k) { t[n++] = (char) ('0' + u % 10); u /= 10; if (!u) break; }
  for (k = 0; k < n; ++k) s[k] = t[n - 1 - k];
  return n;
}
static unsigned int put_str(char *s, const char *t) { unsigned int i; for (i = 0; t[i]; ++i) s[i] = t[i]; return i; }
static int same(const char *a, const char *b)
{
  unsigned int i;
  for (i = 0; i < 16 + NL; ++i) { if (a[i] != b[i]) return 0; if (!a[i]) return 1; }
  return 0;
}
static void ref_prepare(void)
{
  unsigned int i, ended = 0, len = 0, n;
  ref_isnum = 1; ref_val = 0;
  for (i = 0; i < NL; ++i) {
    if (!in_name[i]) ended = 1;
    if (!ended) { ++len; if (in_name[i] < '0' || in_name[i] > '9') ref_isnum = 0; else ref_val = ref_val * 10 + (unsigned int) (in_name[i] - '0'); }
  }
  ref_dot = (in_name[0] == '.');
  ref_canon = ref_isnum && (len == 1 || in_name[0] != '0');
  n = put_str(want_todo_raw, "todo/"); for (i = 0; i < NL; ++i) { if (i >= len) break; want_todo_raw[n++] = (char) in_name[i]; } want_todo_raw[n] = 0;
  n = put_str(want_todo_val, "todo/"); n += put_num(want_todo_val + n, ref_val); want_todo_val[n] = 0;
  n = put_str(want_mess, "mess/"); n += put_num(want_mess + n, ref_val % (unsigned int) SPLIT); want_mess[n++] = '/';
  n += put_num(want_mess + n, ref_val); want_mess[n] = 0;
}

/* ---------------- observed */
static int n_open, n_stat, n_close, fd_open, n_other, open_path_ok, stat_path_ok, n_readdir, n_closedir;
static struct dirent dent_;

void trigger_set(void) {} int trigger_pulled(fd_set *r) { return 0; } void trigger_selprep(int *n, fd_set *r) {}
void log1(char *a) {} void qslog2(char *a, char *b) {} void log3(char *a, char *b, char *c) {}
void logsa(stralloc *s) {} void logsafe(char *s) {} void nomem(void) {} void pausedir(char *d) {}
time_t vf_time(time_t *t) { return NOW; }
int prioq_insert(prioq *pq, struct prioq_elt *pe) { ++n_other; CHECK(0, "C02: nothing is scheduled in this scenario"); return 1; }

struct dirent *vf_readdir(DIR *d)
{
  ++n_readdir;
  CHECK(d == (DIR *) (void *) &dent_, "reads the todo directory stream");
  if (!in_have_entry || n_readdir > 1) return (struct dirent *) 0;
  return &dent_;
}
int vf_closedir(DIR *d) { ++n_closedir; return 0; }
DIR *vf_opendir(const char *n) { CHECK(0, "directory stream is already open in this harness"); return (DIR *) 0; }

int vf_open(const char *path, int flags, ...)
{
  ++n_open;
  CHECK(ref_isnum, "C02: a todo entry whose name is not entirely a decimal number is not a message: nothing is opened");
  CHECK((flags & O_ACCMODE) == O_RDONLY && !(flags & (O_CREAT | O_TRUNC)), "todo/N is only read");
  open_path_ok = ref_canon ? same(path, want_todo_raw) : (same(path, want_todo_raw) || same(path, want_todo_val));
  CHECK(open_path_ok, "C03: the envelope opened is todo/<that number>");
  CHECK(n_open == 1, "one envelope per call");
  if (in_open_fails) { errno = EIO; return -1; }
  fd_open = 1;
  return 20;
}
int vf_stat(const char *path, struct stat *st)
{
  ++n_stat;
  CHECK(ref_isnum && fd_open, "C02: mess/ is examined only for a numbered entry whose envelope was opened");
  stat_path_ok = same(path, want_mess);
  CHECK(stat_path_ok, "C02: the message examined is mess/<N mod split>/<N> of the same number");
  errno = EIO; return -1;                                   /* always fails: the code takes its failure exit */
}
int vf_close(int fd) { CHECK(fd == 20 && fd_open, "closes what it opened"); fd_open = 0; ++n_close; return 0; }
int vf_unlink(const char *path) { ++n_other; CHECK(0, "C02/C03: nothing is removed when the message cannot be examined"); errno = EIO; return -1; }

void vmain(void)
{
  unsigned int i;
  fd_set rfds;
  sym_inputs();
  ASSUME(in_name[0] != 0);                                  /* a directory entry has a non-empty name */
  ASSUME(in_have_entry <= 1 && in_open_fails <= 1);
  in_name[NL] = 0;
  ref_prepare();
  auto_split = SPLIT;
  recent = NOW; nexttodorun = NOW + 100;
  fnmake_init();
  tododir = (DIR *) (void *) &dent_;
  for (i = 0; i < NL + 1; ++i) dent_.d_name[i] = (char) in_name[i];
  FD_ZERO(&rfds);

  todo_do(&rfds);

  CHECK(!fd_open, "every descriptor is closed on every path");
  CHECK(n_other == 0, "nothing removed, nothing scheduled");
  if (!in_have_entry) {
    CHECK(n_open == 0 && n_stat == 0, "end of directory: nothing is touched");
    CHECK(n_closedir == 1 && tododir == 0, "C16: at the end of the directory the stream is closed and the next scan starts over");
    WITNESS("end_of_directory");
    return;
  }
  /* (whether the stream stays open between entries is not prescribed by any document: not checked) */
  if (ref_canon) {
    CHECK(n_open == 1, "C03: a numbered todo entry is preprocessed (its envelope is opened)");
    if (!in_open_fails) { CHECK(n_stat == 1 && n_close == 1, "examined, then closed on the failure exit"); WITNESS("number_preprocessed"); }
    else { CHECK(n_stat == 0, "envelope could not be opened: left for the next scan"); WITNESS("open_failed_left_for_next_scan"); }
    if (ref_val >= SPLIT) WITNESS("number_beyond_split");
  } else if (ref_isnum) {
    /* leading zeros: documents silent, both behaviours accepted (paths were checked in the stubs) */
    if (n_open == 1) WITNESS("leading_zero_name_taken_by_value");
  } else {
    CHECK(n_open == 0 && n_stat == 0, "C02: not a message: nothing is touched");
    if (ref_dot) WITNESS("dot_name_skipped"); else WITNESS("other_name_skipped");
  }
}
