/* C02 / C03(5) / C10 - qmail-send.c todo_do(): preprocessing of one new message, with a
 * symbolic envelope and every system call outcome symbolic.
 *
 * Encoded from /repo: qmail-send.c todo_do (real, entered with the directory stream
 * open), fnmake_*, fmtqfn.c, scan_ulong.c, open_read.c, open_excl.c.
 * Cut: rewrite() -> observing stub (writes rwline = "T" ++ address ++ NUL, channel chosen
 * by the tape; the routing rules themselves are C10), prioq_insert -> observed, log*.
 * Streams are ideal buffered streams (bytes sit in a pending buffer until flushed; a
 * flush may fail), getln is the ideal getln.
 *
 * Reference (INTERNALS.md section "How preprocessing works", property text):
 *   info/N, local/N, remote/N are removed, re-created, completely written and fsynced,
 *   and ONLY THEN is qmail-clean asked to remove intd/N and todo/N ("todo/N" request);
 *   info = the F record; each T record of the envelope yields exactly one T record in
 *   exactly one channel file, in order; only after the cleaner answered '+' is the
 *   message scheduled (on the queue of each channel that got recipients, or pqdone).
 *   Any failure before that leaves todo/N in place and schedules nothing, so the next
 *   scan starts over (nothing lost, nothing half-scheduled).
 */
#include "verif.h"
#include <errno.h>
#include <sys/types.h>
#include <sys/stat.h>
#include <dirent.h>
#include <fcntl.h>
#include "stralloc.h"
int rewrite(char *recip);
#include "gen_qmail-send.c"

#ifndef E
#define E 6                /* envelope bytes in todo/N */
#endif
#define ID 77UL
#define NOW 5000000L
#define OUTMAX (E + 4)

enum { FD_TODO = 20, FD_INFO = 21, FD_LOCAL = 22, FD_REMOTE = 23 };

unsigned char env[E + 1];            /* contents of todo/N */
int in_read_err_at;                  /* read error before this byte (> E: none) */
int fail_at;                         /* the system call (in call order) that fails; none if out of range */
unsigned char choice[E + 1];         /* rewrite(): 0 local, 1 remote, 2 out of memory, per T record */
unsigned char pre_exists[3];         /* leftovers of a crashed earlier attempt */
unsigned char in_reply;

void sym_inputs(void)
{
#ifdef REPLAY
#include "replay_inputs.inc"
#else
  SYM_FEED();
  SYM_ARR(env); SYM(in_read_err_at); SYM(fail_at); SYM_ARR(choice); SYM_ARR(pre_exists); SYM(in_reply);
#endif
}

/* single injected failure (the quantifier of C03: "every single failing open/read/write/
 * fsync/unlink/stat"): call number fail_at fails, all others succeed */
static int ncall;
static unsigned char draw(void) { return (ncall++ == fail_at) ? 1 : 0; }

/* ---------------- file model: {exists, bytes written (durable after fsync), pending in user buffer} */
/* scalar arrays indexed by file (0 info, 1 local, 2 remote): a struct holding arrays is
 * rebuilt as a whole by cbmc on every byte written through a pointer to it */
enum { FI = 0, FL = 1, FR = 2 };
static int x_exists[3], x_open[3], x_created[3];
static unsigned int x_len[3], x_synced[3], x_pend[3];
static unsigned char x_data[3 * OUTMAX], x_pbuf[3 * OUTMAX];
#define DATA(k, i) x_data[(k) * OUTMAX + (i)]
#define PBUF(k, i) x_pbuf[(k) * OUTMAX + (i)]
static int todo_open, n_req, req_ok_shape, n_insert, n_ins_chan[CHANNELS], n_ins_done, failed_call;
static unsigned int epos;
static int chan_of_rec[E + 1]; static unsigned int nrec_T;      /* channel rewrite() chose for the k-th T record */
static unsigned int rec_start[E + 1], rec_len[E + 1];           /* address bytes of the k-th T record inside env[] */
static int dir_done;
static struct dirent dent_;

static int by_fd(int fd) { return fd == FD_INFO ? FI : fd == FD_LOCAL ? FL : fd == FD_REMOTE ? FR : -1; }
static int by_path(const char *p)
{
  if (p[0] == 'i' && p[2] == 'f') return FI;
  if (p[0] == 'l' && p[1] == 'o') return FL;
  if (p[0] == 'r') return FR;
  return -1;
}

/* ---------------- cut callees */
int rewrite(char *recip)
{
  unsigned char t = (nrec_T < E + 1) ? choice[nrec_T] : 0;
  unsigned int i, n = 0;
  if (t == 2) { failed_call = 1; return 0; }                     /* out of memory */
  if (!stralloc_copys(&rwline, "T")) return 0;
  for (i = 0; i < E; ++i) { if (!recip[i]) break; ++n; }
  if (!stralloc_catb(&rwline, recip, n)) return 0;
  if (!stralloc_0(&rwline)) return 0;
  CHECK(nrec_T < E + 1, "harness sizing");
  chan_of_rec[nrec_T] = (t & 1) ? 1 : 0;
  ++nrec_T;
  return (t & 1) ? 2 : 1;                                        /* 1 local, 2 remote */
}
int prioq_insert(prioq *pq, struct prioq_elt *pe)
{
  ++n_insert;
  CHECK(pe->id == ID, "schedules this message");
  if (pq == &pqchan[0]) ++n_ins_chan[0]; else if (pq == &pqchan[1]) ++n_ins_chan[1]; else if (pq == &pqdone) ++n_ins_done;
  else CHECK(0, "unknown queue");
  CHECK(n_req == 1, "C02: a message is scheduled only after the cleaner removed todo/N");
  return 1;
}
void trigger_set(void) {} int trigger_pulled(fd_set *r) { return 0; } void trigger_selprep(int *n, fd_set *r) {}
void log1(char *a) {} void qslog2(char *a, char *b) {} void log3(char *a, char *b, char *c) {}
void logsa(stralloc *s) {} void logsafe(char *s) {} void nomem(void) {} void pausedir(char *d) {}
time_t vf_time(time_t *t) { return NOW; }
/* number formatting for LOG LINES (strnum2/strnum3) is stubbed: uid/pid scanned from the
 * envelope are symbolic and only ever logged; path names still use the real fmt_ulong */
extern unsigned int fmt_ulong_real(char *s, unsigned long u);
unsigned int fmt_ulong(char *s, unsigned long u)
{
  if (s == strnum2 || s == strnum3) { s[0] = '0'; return 1; }
  return fmt_ulong_real(s, u);
}

/* ---------------- system calls */
struct dirent *vf_readdir(DIR *d) { if (dir_done) return 0; dir_done = 1; return &dent_; }
int vf_closedir(DIR *d) { return 0; }
DIR *vf_opendir(const char *n) { CHECK(0, "directory stream is already open in this harness"); return 0; }

int vf_open(const char *path, int flags, ...)
{
  unsigned char t = draw();
  if (path[0] == 't') {
    CHECK((flags & O_ACCMODE) == O_RDONLY, "todo/N is only read");
    if (t & 1) { failed_call = 1; errno = EIO; return -1; }
    todo_open = 1; return FD_TODO;
  }
  {
    int k = by_path(path);
    CHECK(k >= 0, "C02: only info/N, local/N, remote/N of this message are created");
    CHECK((flags & O_EXCL) && (flags & O_CREAT), "created with O_EXCL");
    if (k < 0) return -1;
    if ((t & 1) || x_exists[k]) { failed_call = 1; errno = x_exists[k] ? EEXIST : EIO; return -1; }
    x_exists[k] = 1; x_open[k] = 1; x_created[k] = 1; x_len[k] = x_synced[k] = x_pend[k] = 0;
    return FD_INFO + k;
  }
}

int vf_stat(const char *path, struct stat *st) { unsigned char t = draw(); if (t & 1) { failed_call = 1; errno = EIO; return -1; } st->st_size = 100; return 0; }

int vf_unlink(const char *path)
{
  unsigned char t = draw();
  int k = by_path(path);
  CHECK(k >= 0, "C02: preprocessing unlinks only info/N, local/N, remote/N (never todo, intd or mess)");
  if (k < 0) return -1;
  CHECK(!x_created[k], "C02: a freshly written file is not removed again");
  if (t & 1) { failed_call = 1; errno = EIO; return -1; }
  if (!x_exists[k]) { errno = ENOENT; return -1; }
  x_exists[k] = 0;
  return 0;
}

int vf_fsync(int fd)
{
  unsigned char t = draw();
  int k = by_fd(fd);
  CHECK(k >= 0 && x_open[k], "fsync on a file being written");
  if (t & 1) { failed_call = 1; errno = EIO; return -1; }
  if (k >= 0) x_synced[k] = x_len[k];
  return 0;
}

int vf_close(int fd)
{
  int k = by_fd(fd);
  if (fd == FD_TODO) { todo_open = 0; return 0; }
  CHECK(k >= 0 && x_open[k], "closes what it opened");
  if (k >= 0) x_open[k] = 0;
  return 0;
}
ssize_t vf_read(int fd, void *b, size_t n) { CHECK(0, "reads go through getln"); return -1; }
ssize_t vf_write(int fd, const void *b, size_t n) { CHECK(0, "writes go through substdio"); return -1; }

/* ---------------- ideal buffered streams */
int ideal_getc(substdio *s)
{
  if (s == &ssfromqc) { unsigned char t = draw(); CHECK(n_req == 1, "waits for the cleaner only after a request"); if (t & 1) { failed_call = 1; return -1; } return in_reply; }
  CHECK(s->fd == FD_TODO && todo_open, "envelope is read from todo/N");
  if ((int) epos == in_read_err_at) { failed_call = 1; return -2; }
  if (epos >= E) return -1;
  return env[epos++];
}

static unsigned int qc_pend;
static int durable(int k) { return !x_open[k] && x_pend[k] == 0 && x_synced[k] == x_len[k]; }
static int all_durable(void)
{
  /* everything written to the three files is on disk and nothing sits in a user buffer */
  return x_exists[FI] && x_created[FI] && durable(FI) && (!x_created[FL] || durable(FL)) && (!x_created[FR] || durable(FR));
}

int ideal_putc(substdio *s, unsigned char c)
{
  if (s == &sstoqc) { ++qc_pend; return 0; }                     /* request bytes: checked in ideal_flush via fn */
  {
    int k = by_fd(s->fd);
    CHECK(k >= 0 && x_open[k], "writes go to a file it created");
    if (k < 0) return -1;
    CHECK(x_pend[k] < OUTMAX, "harness sizing");
    if (x_pend[k] < OUTMAX) { PBUF(k, x_pend[k]) = c; ++x_pend[k]; }
    return 0;
  }
}

int ideal_flush(substdio *s)
{
  unsigned char t;
  if (s == &sstoqc && !qc_pend) return 0;                        /* putflush flushes first: nothing buffered yet */
  t = draw();
  if (s == &sstoqc) {
    ++n_req; qc_pend = 0;
    CHECK(fn.len == 8 && fn.s[0] == 't' && fn.s[1] == 'o' && fn.s[2] == 'd' && fn.s[3] == 'o' && fn.s[4] == '/' &&
          fn.s[5] == '7' && fn.s[6] == '7' && fn.s[7] == 0, "C02: the request names todo/N of this message");
    CHECK(all_durable(), "C02/C03(5): info, local and remote are completely written, fsynced and closed BEFORE todo/N is removed");
    CHECK(!failed_call, "C03: no failed call was ignored before the commit request");
    CHECK(!todo_open, "todo/N closed before the request");
    if (t & 1) { failed_call = 1; return -1; }
    return 0;
  }
  {
    int k = by_fd(s->fd);
    unsigned int i;
    CHECK(k >= 0 && x_open[k], "flush on a file being written");
    if (k < 0) return -1;
    if (t & 1) { failed_call = 1; x_pend[k] = 0; return -1; }
    for (i = 0; i < OUTMAX; ++i) { if (i >= x_pend[k]) break; if (x_len[k] < OUTMAX) { DATA(k, x_len[k]) = PBUF(k, i); ++x_len[k]; } }
    x_pend[k] = 0;
    return 0;
  }
}

/* ---------------- reference: split the envelope into records */
static int ref_parse(unsigned int *f_start, unsigned int *f_len, int *has_F, unsigned int *nT)
{
  /* returns 1 if the envelope is a sequence of complete u/p/F/T records (each NUL-terminated) */
  unsigned int p = 0, k;
  *has_F = 0; *nT = 0;
  for (k = 0; k < E + 1; ++k) {
    unsigned int s0 = p;
    if (p >= E) return 1;
    while (p < E && env[p]) ++p;
    if (p >= E) return 1;                     /* unterminated tail: treated as end of file */
    if (env[s0] == 'T') { rec_start[*nT] = s0 + 1; rec_len[*nT] = p - s0 - 1; ++*nT; }
    else if (env[s0] == 'F') { *has_F = 1; *f_start = s0; *f_len = p - s0 + 1; }
    else if (env[s0] != 'u' && env[s0] != 'p') return 0;    /* unknown record type (includes the empty record) */
    ++p;
  }
  return 1;
}

void vmain(void)
{
  unsigned int i, k, fs = 0, fl = 0, nT = 0;
  int has_F = 0, wf;
  fd_set rfds;
  sym_inputs();
  for (i = 0; i < E + 1; ++i) ASSUME(choice[i] <= 2);
  x_exists[FI] = pre_exists[0] & 1; x_exists[FL] = pre_exists[1] & 1; x_exists[FR] = pre_exists[2] & 1;   /* leftovers of a crashed earlier attempt */
  recent = NOW; nexttodorun = NOW + 100;
  fnmake_init();
  /* take the arena slots in a fixed order, so every stralloc's buffer is a concrete object */
  stralloc_ready(&todoline, 0); stralloc_ready(&rwline, 0);
  tododir = (DIR *) &dent_;
  dent_.d_name[0] = '7'; dent_.d_name[1] = '7'; dent_.d_name[2] = 0;
  FD_ZERO(&rfds);

  {
    /* the envelope was written by qmail-queue (C01): it holds at most one F record */
    unsigned int nF = 0, bol = 1;
    for (i = 0; i < E; ++i) { if (bol && env[i] == 'F') ++nF; bol = (env[i] == 0); }
    ASSUME(nF <= 1);
  }
  todo_do(&rfds);

  wf = ref_parse(&fs, &fl, &has_F, &nT);
  CHECK(!todo_open && !x_open[FI] && !x_open[FL] && !x_open[FR], "every descriptor is closed on every path");
  if (n_req == 0) {
    CHECK(n_insert == 0, "C02/C03: nothing is scheduled while todo/N exists");
    CHECK(failed_call || !wf, "the commit request is skipped only after a failure or a malformed envelope");
    if (failed_call) WITNESS("failure_leaves_todo");
    if (!wf && !failed_call) WITNESS("unknown_record_leaves_todo");
    return;
  }
  /* the commit request was sent (its pre-conditions were checked in ideal_flush) */
  CHECK(wf, "C03(5): an envelope with an unknown record type is never committed");
  CHECK(nrec_T == nT, "C03(5)/C10: every T record is routed exactly once");
  /* info = the F record */
  if (has_F) {
    CHECK(x_len[FI] == fl, "info/N holds the F record");
    for (i = 0; i < E + 1; ++i) { if (i >= fl) break; CHECK(DATA(FI, i) == env[fs + i], "info/N holds the envelope sender exactly"); }
  } else CHECK(x_len[FI] == 0, "no F record: empty info");
  /* channel files: one T record per envelope T record, in order, in the channel rewrite() chose */
  {
    unsigned int pos[CHANNELS] = { 0, 0 };
    for (k = 0; k < E + 1; ++k) {
      int c, f;
      if (k >= nT) break;
      c = chan_of_rec[k]; f = c ? FR : FL;
      CHECK(x_created[f], "C10: the chosen channel file was created");
      CHECK(pos[c] + rec_len[k] + 2 <= x_len[f], "C03(5)/C10: no recipient is dropped");
      if (pos[c] + rec_len[k] + 2 <= x_len[f]) {
        CHECK(DATA(f, pos[c]) == 'T', "record starts with T (to do)");
        for (i = 0; i < E; ++i) { if (i >= rec_len[k]) break; CHECK(DATA(f, pos[c] + 1 + i) == env[rec_start[k] + i], "C10: recipients keep their order and content (as rewritten)"); }
        CHECK(DATA(f, pos[c] + 1 + rec_len[k]) == 0, "record ends with NUL");
      }
      pos[c] += rec_len[k] + 2;
    }
    CHECK(pos[0] == (x_created[FL] ? x_len[FL] : 0) && pos[1] == (x_created[FR] ? x_len[FR] : 0),
          "C03(5)/C10: no recipient is duplicated or invented");
    if (in_reply == '+' && !failed_call) {
      CHECK(n_ins_chan[0] == (pos[0] ? 1 : 0) && n_ins_chan[1] == (pos[1] ? 1 : 0), "C03: scheduled on exactly the channels that received recipients");
      CHECK(n_ins_done == ((pos[0] || pos[1]) ? 0 : 1), "C03: a message without recipients goes to pqdone");
      if (pos[0] && pos[1]) WITNESS("both_channels_scheduled");
      if (!pos[0] && !pos[1]) WITNESS("no_recipients_done");
      WITNESS("committed_and_scheduled");
    } else {
      CHECK(n_insert == 0, "C02: cleaner did not confirm: nothing scheduled, todo/N stays for the next scan");
      WITNESS("cleaner_refused");
    }
  }
}
