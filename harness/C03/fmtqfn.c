/* C02 / C03 - fmtqfn.c: the queue file name of message number N.
 *
 * Encoded from /repo: fmtqfn.c fmtqfn (real), fmt_ulong.c, fmt_str.c; auto_split is the
 * real variable of auto_split.c, set to the concrete value SPLIT of the grid point.
 *
 * Reference (INTERNALS.md section 2 "mess/457 ... info/457", qmail-clean(8)/conf-split:
 * "the queue subdirectory split": files of the split directories live in
 * <dir>/<N mod split>/<N>, the others in <dir>/<N>; fmtqfn.h: "FMTQFN 40: maximum space
 * needed, if len(dirslash) <= 10"; the callers (qmail-queue.c fnnum: alloc(fmtqfn(NULL,..))
 * then fmtqfn(s,..); qmail-send.c fnmake_*: fn.len = fmtqfn(fn.s,..) into FMTQFN bytes)
 * rely on: the value returned for s == 0 is exactly the number of bytes written for
 * s != 0, including the terminating NUL).
 *
 * The reference does not format anything: it PARSES the produced string back
 *   name  = dirslash [ number "/" ] number NUL       number = "0" | [1-9][0-9]*
 * and compares the value of the last number with id and the value of the first with
 * id mod split.  Canonical decimal (no leading zeros) is demanded because
 * INTERNALS.md identifies the file name with the inode NUMBER ("if mess/457 exists, it
 * has inode number 457") and qmail-clean/readsubdir map names back by value: two
 * spellings of one number would be two files for one message.
 *
 * Bound: id < 10^DIG, dirslash = DL symbolic non-NUL bytes.  The decimal round trip
 * (repeated 64-bit division against the reference's multiplication) is what limits DIG:
 * 4 digits 12 s, 5 digits 40 s, 7 digits 490 s, 10 digits no verdict in 600 s.
 *
 * ABS=1 (second kind of grid point) reaches every 64-bit id and a symbolic auto_split:
 * fmt_ulong is replaced by its contract "returns the number of decimal digits of u and,
 * if s != 0, writes exactly that many bytes at s" (the bytes are a marker telling WHICH
 * number was formatted); what is then decided is fmtqfn's own part: which numbers are
 * formatted (id mod auto_split in unsigned 64-bit arithmetic, then id), where, with which
 * separators, the terminator, and that the s==0 length is the written length.  The
 * contract itself is what the ABS=0 points decide for the real fmt_ulong up to DIG digits.
 */
#include "verif.h"
#include "fmtqfn.h"
#include "auto_split.h"
extern unsigned int fmtqfn(char *s, char *dirslash, unsigned long id, int flagsplit);

#ifndef SPLIT
#define SPLIT 23
#endif
#ifndef DIG
#define DIG 4
#endif
#ifndef DL
#define DL 5
#endif
#ifndef ABS
#define ABS 0
#endif
#define NDMAX (DIG < 20 ? DIG + 1 : 21)
#define BUFSZ 48                 /* FMTQFN (40) + 8 guard bytes */
#define GUARD 0xEE

unsigned long in_id;
int in_flag;
unsigned char in_dir[DL + 1];
int in_split;                    /* ABS=1 with SPLIT=0: auto_split symbolic */

void sym_inputs(void)
{
#ifdef REPLAY
#include "replay_inputs.inc"
#else
  SYM(in_id); SYM(in_flag); SYM_ARR(in_dir); SYM(in_split);
#endif
}

static char out[BUFSZ];
static char dir[DL + 1];

static const unsigned long p10[20] = { 1UL, 10UL, 100UL, 1000UL, 10000UL, 100000UL, 1000000UL, 10000000UL, 100000000UL, 1000000000UL,
  10000000000UL, 100000000000UL, 1000000000000UL, 10000000000000UL, 100000000000000UL, 1000000000000000UL,
  10000000000000000UL, 100000000000000000UL, 1000000000000000000UL, 10000000000000000000UL };

/* fmt_ulong.c is linked with its definition renamed to fmt_ulong_real (Prog cut) */
extern unsigned int fmt_ulong_real(char *s, unsigned long u);
static unsigned int n_fmt, n_fmt_id, n_fmt_sub;
#if ABS
static unsigned long ref_sub;      /* id mod split, computed ONCE in vmain: every '%' is a separate divider circuit the solver has to prove equal to the code's */
static unsigned int ref_ndigits(unsigned long u)
{
  unsigned int k, l = 1;
  for (k = 1; k < 20; ++k) if (u >= p10[k]) l = k + 1;
  return l;
}
unsigned int fmt_ulong(char *s, unsigned long u)
{
  unsigned int l = ref_ndigits(u), i;
  ++n_fmt;
  CHECK(u == in_id || u == ref_sub, "C02: only the message number and (message number mod split) are formatted");
  if (u == in_id) ++n_fmt_id; else ++n_fmt_sub;
  if (s) for (i = 0; i < 20; ++i) { if (i >= l) break; s[i] = (u == in_id) ? 'N' : 'S'; }
  return l;
}
#else
unsigned int fmt_ulong(char *s, unsigned long u) { ++n_fmt; return fmt_ulong_real(s, u); }
#endif

#if !ABS
static int isdig(char c) { return c >= '0' && c <= '9'; }

/* parse one canonical decimal number at out[*pos]; value in *v */
static int ref_number(unsigned int *pos, unsigned long *v)
{
  unsigned int i, n = 0, p = *pos;
  unsigned long val = 0;
  char first = out[p];
  for (i = 0; i < NDMAX; ++i) {      /* a number inside the bound has at most DIG digits; one more is looked at */
    char c;
    if (p >= BUFSZ) return 0;
    c = out[p];
    if (!isdig(c)) break;
    if (n == 19 && (val > 1844674407370955161UL || (val == 1844674407370955161UL && c > '5'))) return 0;   /* would not fit 64 bits */
    if (n >= 20) return 0;
    val = val * 10 + (unsigned long) (c - '0');
    ++n; ++p;
  }
  if (n == 0) return 0;
  if (n > 1 && first == '0') return 0;          /* leading zero: not the canonical spelling */
  *pos = p; *v = val;
  return 1;
}
#endif

void vmain(void)
{
  unsigned int i, n0, n1, pos;
  unsigned long v = 0, vs = 0;
  sym_inputs();
#if !ABS
  ASSUME(in_id < p10[DIG]);
#endif
  ASSUME(in_flag == 0 || in_flag == 1);
  for (i = 0; i < DL; ++i) { ASSUME(in_dir[i] != 0); dir[i] = (char) in_dir[i]; }
  dir[DL] = 0;
  for (i = 0; i < BUFSZ; ++i) out[i] = (char) GUARD;
#if SPLIT == 0
  ASSUME(in_split >= 1 && in_split < 10000000);      /* beyond 10^8 a 20-digit id no longer fits FMTQFN with a 10-byte dirslash */
  auto_split = in_split;
#else
  auto_split = SPLIT;
#endif
#if ABS
  ref_sub = in_id % (unsigned long) auto_split;
#endif

  n0 = fmtqfn((char *) 0, dir, in_id, in_flag);
  n1 = fmtqfn(out, dir, in_id, in_flag);

  CHECK(n0 == n1, "C02/C20: the length announced for s==0 is the length written (callers allocate by it)");
  CHECK(n1 >= 1 && n1 <= FMTQFN, "C20: a name with dirslash of at most 10 bytes fits FMTQFN bytes");
  if (n1 < 1 || n1 > FMTQFN) return;
  CHECK(out[n1 - 1] == 0, "the name is NUL-terminated at the returned length");
  for (i = 0; i < BUFSZ; ++i) {
    if (i + 1 < n1) CHECK(out[i] != 0, "no NUL inside the name");
    if (i >= n1) CHECK(out[i] == (char) GUARD, "C20: nothing is written beyond the returned length");
  }
  for (i = 0; i < DL; ++i) CHECK(out[i] == dir[i], "the name starts with dirslash");
  pos = DL;
#if ABS
  {
    /* layout over the fmt_ulong contract: [ndigits(id mod split) marker bytes, '/'], ndigits(id) marker bytes, NUL */
    unsigned long sub = ref_sub;
    unsigned int ls = ref_ndigits(sub), li = ref_ndigits(in_id);
    char ms = (sub == in_id) ? 'N' : 'S';
    if (in_flag) {
      for (i = 0; i < 20; ++i) { if (i >= ls) break; CHECK(out[pos + i] == ms, "split name: dirslash is followed by (message number mod split)"); }
      pos += ls;
      CHECK(out[pos] == '/', "split name: subdirectory number is followed by '/'");
      ++pos;
    }
    for (i = 0; i < 20; ++i) { if (i >= li) break; CHECK(out[pos + i] == 'N', "C02: the file name is the message number"); }
    pos += li;
    CHECK(pos == n1 - 1, "nothing but the terminating NUL follows the message number");
    /* two passes (s == 0 and s != 0), each formatting id once and, for split names, id mod split once */
    CHECK(n_fmt == (in_flag ? 4u : 2u), "each number is formatted once per pass");
    if (in_flag) {
      if (in_id >= (unsigned long) auto_split) WITNESS("split_name_wrapped");
      if (in_id >= (1UL << 32) && in_id >= (unsigned long) auto_split) WITNESS("split_of_a_64_bit_number");
      WITNESS("split_name");
    } else {
      WITNESS("flat_name");
    }
  }
#else
  if (in_flag) {
    CHECK(ref_number(&pos, &vs), "split name: dirslash is followed by a canonical decimal number");
    CHECK(out[pos] == '/', "split name: subdirectory number is followed by '/'");
    ++pos;
  }
  CHECK(ref_number(&pos, &v), "the name ends with a canonical decimal number");
  CHECK(pos == n1 - 1, "nothing but the terminating NUL follows the message number");
  CHECK(v == in_id, "C02: the file name is the message number");
  if (in_flag) {
    /* "N mod split" is the C operator on the INPUT number (one constant-modulus circuit); computing the residue
     * digit by digit from the parsed string instead made the query undecidable in 600 s from 7 digits on */
    CHECK(vs < (unsigned long) SPLIT && vs == in_id % (unsigned long) SPLIT, "C02: the subdirectory is (message number mod split)");
    if (in_id >= (unsigned long) SPLIT) WITNESS("split_name_wrapped");
    WITNESS("split_name");
  } else {
    WITNESS("flat_name");
  }
#endif
}
