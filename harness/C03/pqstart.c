/* C03 / C02 / C04 - qmail-send.c pqstart(): what a (re)started daemon puts on its schedules.
 *
 * Encoded from /repo: qmail-send.c pqstart (real), readsubdir.c (real), scan_ulong.c,
 * fmt_ulong.c, fmt_str.c.  Cut: pqadd -> observing stub (what pqadd does with one number,
 * from an arbitrary on-disk state, is obligation pqadd).  pausedir (qsutil.c: log + sleep)
 * -> the model's pause.  Environment: dirmodel.h over "info".
 *
 * Reference (property C03: "restart rebuilds all schedules from info/, local/, remote/";
 * INTERNALS.md section 2: a preprocessed message N has info/N, i.e. info/<N mod split>/N):
 * pqadd is called exactly once for every entry of info/0 .. info/<split-1> whose name is
 * a decimal number, with that number, and for nothing else; the scan covers every
 * subdirectory even when opendir fails for a while (pause, retry), and runs to the end.
 * Non-numeric names: see rsd_scan.c (documents silent; only "no pqadd for them" is
 * demanded).  Order of the calls is not constrained.
 */
#include "verif.h"
#define DM_DIRNAME "info"
#include "dirmodel.h"
void pqadd(unsigned long id);
#include "gen_qmail-send.c"
#include "auto_split.h"

void sym_inputs(void)
{
#ifdef REPLAY
#include "replay_inputs.inc"
#else
  DM_SYM_INPUTS();
#endif
}

void pqadd(unsigned long id) { dm_consume(id); }
void pausedir(char *dir) { dm_pause(dir); }

void vmain(void)
{
  sym_inputs();
  dm_prepare();
  auto_split = SPLIT;

  pqstart();

  dm_finish();
  if (dm_nconsumed > 0) WITNESS("message_scheduled");
  if (dm_nconsumed == DM_NENT) WITNESS("all_entries_messages");
  if (dm_nconsumed == 0 && dm_cnt[0] > 0) WITNESS("nothing_to_schedule");
  if (dm_nskipped_dot > 0) WITNESS("dot_name_skipped");
  if (dm_nskipped_other > 0) WITNESS("other_name_skipped");
  if (dm_nfail > 0) WITNESS("opendir_failed_paused_retried");
  WITNESS("restart_scan_complete");
}
