/* dirmodel.h - a symbolic split directory tree ("info/0 .. info/<split-1>", "mess/..")
 * behind opendir/readdir/closedir, shared by readsubdir.c (the scanner alone) and
 * pqstart.c (the restart scan of qmail-send.c).  Included after verif.h; the plan renames
 * opendir/readdir/closedir to vf_* in every translation unit.
 *
 * Concrete per grid point: SPLIT (value given to auto_split), K (most entries a
 * subdirectory holds, "." and ".." included if present), NL (longest name, bytes),
 * OF (most consecutive failures of one opendir).
 * Symbolic: how many entries each subdirectory holds (0..K), every byte of every name
 * (so ".", "..", ".x", "12", "007", "1a", "a" and shorter names all occur), how often
 * each opendir fails before it succeeds (0..OF).
 *
 * What the model demands of the code (each is a CHECK):
 *   - only DM_DIRNAME "/" p  with 0 <= p < split is ever opened (the queue has no other
 *     subdirectories; opening a missing one would pause the daemon forever);
 *   - after a failed opendir the pause callback runs before the next attempt (that is
 *     what the callback is for: qsutil.c pausedir logs "unable to opendir" and sleeps);
 *   - an id is handed out (dm_consume) only for the entry read last, only once, only if
 *     the name is entirely decimal digits, and it is the value of that name;
 *   - an entry whose name is entirely decimal digits is never passed over (dm_settle);
 *   - at the end (dm_finish) every subdirectory was opened once, read to its end and closed.
 * Modelling restriction, reported if broken: one directory stream open at a time (the
 * model has one struct dirent; POSIX lets a stream reuse its buffer).
 *
 * Nothing here is taken from readsubdir.c: names are classified by dm_prepare() before the
 * code runs (digits only / value by Horner), paths are parsed back, not formatted.
 */
#include <errno.h>
#include <sys/types.h>
#include <dirent.h>

#ifndef SPLIT
#define SPLIT 2
#endif
#ifndef K
#define K 3
#endif
#ifndef NL
#define NL 3
#endif
#ifndef OF
#define OF 1
#endif
#ifndef DM_DIRNAME
#define DM_DIRNAME "info"
#endif
#define DM_NENT (SPLIT * K)
#define DM_NB (NL + 1)

/* ---- symbolic inputs (assigned in the harness's sym_inputs via DM_SYM_INPUTS) */
unsigned char dm_name[DM_NENT * DM_NB];   /* name of entry k of subdirectory p at (p*K+k)*DM_NB, NUL-terminated inside NL+1 bytes */
unsigned char dm_cnt[SPLIT];              /* entries held by subdirectory p */
unsigned char dm_ofail[SPLIT];            /* failing opendir attempts before the successful one */
#define DM_SYM_INPUTS() SYM_ARR(dm_name); SYM_ARR(dm_cnt); SYM_ARR(dm_ofail)

/* ---- reference classification of the names, computed once before the code runs */
static unsigned char dm_isnum[DM_NENT];   /* name is one or more decimal digits and nothing else */
static unsigned char dm_isdot[DM_NENT];   /* name starts with '.' */
static unsigned long dm_val[DM_NENT];     /* its value (NL <= 9: no overflow) */

/* ---- model state */
static int dm_cur = -1;                   /* subdirectory whose stream is open, -1 none */
static unsigned int dm_rpos[SPLIT];       /* entries of p already delivered */
static unsigned char dm_opened[SPLIT], dm_failed[SPLIT], dm_eof[SPLIT], dm_closed[SPLIT];
static int dm_pend = -1, dm_pend_used;    /* entry delivered by the last readdir / already handed out */
static int dm_pause_owed, dm_npause, dm_nfail, dm_nconsumed, dm_nskipped_dot, dm_nskipped_other;
static char dm_tok[SPLIT];                /* DIR * handed to the code = &dm_tok[p] */
static struct dirent dm_dent;

static void dm_prepare(void)
{
  unsigned int e, i;
  for (e = 0; e < DM_NENT; ++e) {
    const unsigned char *n = dm_name + e * DM_NB;
    unsigned int num = 1, ended = 0; unsigned long v = 0;
    ASSUME(n[0] != 0);                                       /* a directory entry has a non-empty name */
    dm_name[e * DM_NB + NL] = 0;                             /* constant terminator */
    for (i = 0; i < NL; ++i) {
      if (!n[i]) ended = 1;
      if (!ended) { if (n[i] < '0' || n[i] > '9') num = 0; else v = v * 10 + (unsigned long) (n[i] - '0'); }
    }
    dm_isnum[e] = (unsigned char) num; dm_val[e] = v; dm_isdot[e] = (n[0] == '.');
  }
  for (e = 0; e < SPLIT; ++e) { ASSUME(dm_cnt[e] <= K); ASSUME(dm_ofail[e] <= OF); }
}

/* the code under test hands out `id` as a message number */
static void dm_consume(unsigned long id)
{
  CHECK(dm_pend >= 0 && !dm_pend_used, "C03/C04: a message number is handed out only for the directory entry just read: none invented, none twice");
  if (dm_pend >= 0) {
    CHECK(dm_isnum[dm_pend], "C02: only a name that is entirely a decimal number is taken as a message number");
    CHECK(dm_val[dm_pend] == id, "C03: the number handed out is the decimal value of the entry's name");
  }
  dm_pend_used = 1; ++dm_nconsumed;
}

/* the code moved on from the entry read last */
static void dm_settle(void)
{
  if (dm_pend >= 0 && !dm_pend_used) {
    CHECK(!dm_isnum[dm_pend], "C03: a numbered entry is never passed over (restart would forget the message)");
    if (dm_isdot[dm_pend]) ++dm_nskipped_dot; else ++dm_nskipped_other;
  }
  dm_pend = -1; dm_pend_used = 0;
}

static void dm_finish(void)
{
  unsigned int p;
  dm_settle();
  CHECK(dm_cur == -1, "every directory stream is closed when the scan ends");
  for (p = 0; p < SPLIT; ++p) {
    CHECK(dm_opened[p] == 1, "C03: every subdirectory 0..split-1 is scanned, once");
    CHECK(dm_eof[p] && dm_rpos[p] == dm_cnt[p], "C03: every subdirectory is read to its end");
    CHECK(dm_closed[p] == 1, "every directory stream is closed once");
    CHECK(dm_failed[p] == dm_ofail[p], "a subdirectory whose opendir failed is retried until it opens (never skipped)");
  }
  CHECK(!dm_pause_owed, "the last failure was followed by a pause");
}

void dm_pause(char *dir) { dm_pause_owed = 0; ++dm_npause; }

/* ---- the three calls */
DIR *vf_opendir(const char *path)
{
  static const char pre[] = DM_DIRNAME "/";
  unsigned int i, n = 0, p = 0, ok = 1;
  for (i = 0; i + 1 < sizeof pre; ++i) if (ok && path[i] != pre[i]) ok = 0;
  if (ok) {
    const char *q = path + sizeof pre - 1;
    for (i = 0; i < 4; ++i) { if (q[i] < '0' || q[i] > '9') break; p = p * 10 + (unsigned int) (q[i] - '0'); ++n; }
    if (n == 0 || n > 3 || q[n] != 0 || (n > 1 && q[0] == '0')) ok = 0;
  }
  CHECK(ok && p < SPLIT, "C02: only the subdirectories <dir>/0 .. <dir>/<split-1> are opened, by their canonical names");
  CHECK(!dm_pause_owed, "C16: a failed opendir is followed by the pause callback before it is tried again");
  CHECK(dm_cur == -1, "model restriction: one directory stream at a time");
  if (!ok || p >= SPLIT) { errno = ENOENT; return (DIR *) 0; }
  CHECK(dm_opened[p] == 0, "C04: a subdirectory is not scanned twice");
  if (dm_failed[p] < dm_ofail[p]) { ++dm_failed[p]; ++dm_nfail; dm_pause_owed = 1; errno = EMFILE; return (DIR *) 0; }
  dm_opened[p] = 1; dm_cur = (int) p; dm_rpos[p] = 0;
  return (DIR *) (void *) &dm_tok[p];
}

struct dirent *vf_readdir(DIR *d)
{
  unsigned int i, e, p;
  CHECK(dm_cur >= 0 && d == (DIR *) (void *) &dm_tok[dm_cur], "readdir on the open directory stream");
  if (dm_cur < 0) return (struct dirent *) 0;
  p = (unsigned int) dm_cur;
  dm_settle();
  if (dm_rpos[p] >= dm_cnt[p]) { dm_eof[p] = 1; return (struct dirent *) 0; }
  e = p * K + dm_rpos[p]; ++dm_rpos[p];
  for (i = 0; i < DM_NB; ++i) dm_dent.d_name[i] = (char) dm_name[e * DM_NB + i];
  dm_pend = (int) e; dm_pend_used = 0;
  return &dm_dent;
}

int vf_closedir(DIR *d)
{
  CHECK(dm_cur >= 0 && d == (DIR *) (void *) &dm_tok[dm_cur], "closedir on the open directory stream");
  if (dm_cur >= 0) { if (dm_closed[dm_cur] < 2) ++dm_closed[dm_cur]; dm_cur = -1; }
  return 0;
}
