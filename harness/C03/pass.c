/* C03(2) / C04 / C15 - qmail-send.c pass_dochan(): one step of a delivery pass over a
 * channel file, from an arbitrary (symbolic) state: idle with a queue entry that is due
 * or not, or in the middle of a pass at an arbitrary record.
 *
 * Encoded from /repo: qmail-send.c pass_dochan, job_open, job_avail, fnmake_chanaddr (real).
 * Cut: getinfo (symbolic result), nextretry (observed, symbolic result; proved in C15),
 * del_avail (symbolic), del_start and job_close (observed), prioq_* (a one-element queue
 * kept by the harness; the heap itself is proved in C15), getln (ideal stream over the
 * symbolic record bytes).
 *
 * Reference (INTERNALS.md, qmail-send(8), property text):
 *   a pass starts only for an entry whose due time has come (dt <= now) and only when a
 *   job slot is free; the entry leaves the queue while its job is open; the job gets
 *   retry = nextretry(birth, channel) and flagdying = (now > birth + lifetime).
 *   Each step reads one record: T => one delivery is started for exactly that record,
 *   remembering the offset of its first byte; D (finished) => never started again;
 *   end of file => flaghiteof; anything unreadable => the pass is abandoned WITHOUT
 *   flaghiteof, so job_close() keeps the channel file.  Failures to open put the entry
 *   back on the queue.  With flagexitasap nothing is started.
 */
#include "verif.h"
#include <errno.h>
#include <fcntl.h>
#include "datetime.h"
#include "seek.h"
#include "stralloc.h"
/* prototypes of the cut callees must be visible before their (K&R, unprototyped) call
 * sites, or the call is typed int() and a datetime_sec result would be truncated */
datetime_sec nextretry(datetime_sec birth, int c);
int getinfo(stralloc *sa, datetime_sec *dt, unsigned long id);
int del_avail(int c);
void del_start(int j, seek_pos mpos, char *recip);
void job_close(int j);
#include "gen_qmail-send.c"

#ifndef CH
#define CH 0
#endif
#ifndef RL
#define RL 4                 /* bytes left in the channel file */
#endif
#define ID 77UL
#define NOW 5000000L

/* ---------------- symbolic inputs */
int in_idle;                 /* 1: pass[CH].id == 0 */
int in_has_entry; long in_dt;            /* queue entry (id = ID) and its due time */
long in_recent, in_birth, in_lifetime, in_retry_val, in_mpos;
int in_getinfo_ok, in_open_fail, in_del_avail, in_exitasap, in_job_free;
int in_numtodo;
int stale_dying[2], stale_hiteof[2], stale_numtodo[2]; long stale_retry[2];   /* left in job slots by earlier messages */
unsigned char rec[RL + 1]; unsigned int reclen; int in_read_err;

void sym_inputs(void)
{
#ifdef REPLAY
#include "replay_inputs.inc"
#else
  SYM_FEED();
  SYM(in_idle); SYM(in_has_entry); SYM(in_dt); SYM(in_recent); SYM(in_birth); SYM(in_lifetime); SYM(in_retry_val);
  SYM(in_mpos); SYM(in_getinfo_ok); SYM(in_open_fail); SYM(in_del_avail); SYM(in_exitasap); SYM(in_job_free);
  SYM(in_numtodo); SYM_ARR(stale_dying); SYM_ARR(stale_hiteof); SYM_ARR(stale_numtodo); SYM_ARR(stale_retry); SYM_ARR(rec); SYM(reclen); SYM(in_read_err);
#endif
}

static struct job jobs[2];
static int q_has; static struct prioq_elt q_elt; static int n_delmin, n_insert; static long ins_dt; static unsigned long ins_id;
static int n_open, n_close, fd_open, n_del_start, n_job_close, closed_j = -1, n_nextretry;
static long ds_mpos; static int ds_j; static char ds_recip0; static unsigned int ds_reciplen;
static unsigned int rpos;
static int hiteof_at_close;

int prioq_min(prioq *pq, struct prioq_elt *pe) { CHECK(pq == &pqchan[CH], "looks at its own channel queue"); if (!q_has) return 0; *pe = q_elt; return 1; }
void prioq_delmin(prioq *pq) { CHECK(pq == &pqchan[CH] && q_has, "removes from its own channel queue"); q_has = 0; ++n_delmin; }
int prioq_insert(prioq *pq, struct prioq_elt *pe) { CHECK(pq == &pqchan[CH], "re-inserts into its own channel queue"); ++n_insert; ins_dt = pe->dt; ins_id = pe->id; return 1; }

int getinfo(stralloc *sa, datetime_sec *dt, unsigned long id)
{
  CHECK(id == ID, "reads the info file of the message it is about to pass over");
  if (!in_getinfo_ok) return 0;
  *dt = in_birth;
  if (!stralloc_copys(sa, "s@h")) return 0;
  if (!stralloc_0(sa)) return 0;
  return 1;
}
datetime_sec nextretry(datetime_sec birth, int c) { ++n_nextretry; CHECK(birth == in_birth && c == CH, "C15: retry computed from the message's birth and this channel"); return in_retry_val; }
int del_avail(int c) { CHECK(c == CH, "asks about its own channel"); return in_del_avail; }
void del_start(int j, seek_pos mpos, char *recip)
{
  ++n_del_start; ds_j = j; ds_mpos = (long) mpos; ds_recip0 = recip[0];
  { unsigned int i; ds_reciplen = 0; for (i = 0; i < RL + 1; ++i) { if (!recip[i]) break; ++ds_reciplen; } }
}
void job_close(int j) { ++n_job_close; closed_j = j; hiteof_at_close = jobs[j].flaghiteof; }
void log1(char *a) {} void qslog2(char *a, char *b) {} void log3(char *a, char *b, char *c) {}
void logsa(stralloc *s) {} void logsafe(char *s) {} void nomem(void) {} void pausedir(char *d) {}

int vf_open(const char *path, int flags, ...)
{
  ++n_open;
  CHECK(path == fn.s && (flags & O_ACCMODE) == O_RDONLY, "opens the channel file read-only");
  CHECK(path[0] == (CH == 0 ? 'l' : 'r') && path[1] == (CH == 0 ? 'o' : 'e'), "C03: the pass reads its own channel's recipient list");
  if (in_open_fail) { errno = EIO; return -1; }
  fd_open = 1;
  return 9;
}
int vf_close(int fd) { CHECK(fd == 9 && fd_open, "closes the channel file it has open"); fd_open = 0; ++n_close; return 0; }
ssize_t vf_read(int fd, void *b, size_t n) { CHECK(0, "reads go through getln"); return -1; }

int ideal_getc(substdio *s)
{
  CHECK(s == &pass[CH].ss && s->fd == 9 && fd_open, "reads records from the open channel file");
  if (in_read_err && rpos == reclen) return -2;
  if (rpos >= reclen || rpos >= RL) return -1;
  return rec[rpos++];
}
int ideal_putc(substdio *s, unsigned char c) { CHECK(0, "pass_dochan writes nothing"); return -1; }
int ideal_flush(substdio *s) { return 0; }

void vmain(void)
{
  unsigned int i, first_nul = RL + 1;
  long mpos0;
  sym_inputs();
  ASSUME(in_idle == 0 || in_idle == 1); ASSUME(in_has_entry == 0 || in_has_entry == 1);
  ASSUME(in_getinfo_ok == 0 || in_getinfo_ok == 1); ASSUME(in_open_fail == 0 || in_open_fail == 1);
  ASSUME(in_del_avail == 0 || in_del_avail == 1); ASSUME(in_exitasap == 0 || in_exitasap == 1);
  ASSUME(in_job_free == 0 || in_job_free == 1); ASSUME(in_read_err == 0 || in_read_err == 1);
  ASSUME(in_recent >= 0 && in_recent < (1L << 40) && in_birth >= 0 && in_birth < (1L << 40));
  ASSUME(in_lifetime >= 0 && in_lifetime < (1L << 31) && in_dt >= 0 && in_dt < (1L << 40));
  ASSUME(in_mpos >= 0 && in_mpos < (1L << 40) && in_numtodo >= 0 && in_numtodo < 1000);
  ASSUME(reclen <= RL);
  for (i = 0; i < RL; ++i) if (i < reclen && rec[i] == 0 && first_nul > RL) first_nul = i;
  recent = in_recent; lifetime = (int) in_lifetime; flagexitasap = in_exitasap;
  fnmake_init();
  numjobs = 2; jo = jobs;
  { int k; for (k = 0; k < 2; ++k) {   /* a free slot still holds whatever its previous message left there */
      ASSUME(stale_dying[k] == 0 || stale_dying[k] == 1); ASSUME(stale_hiteof[k] == 0 || stale_hiteof[k] == 1);
      ASSUME(stale_numtodo[k] >= 0 && stale_numtodo[k] < 1000);
      jobs[k].flagdying = stale_dying[k]; jobs[k].flaghiteof = stale_hiteof[k]; jobs[k].numtodo = stale_numtodo[k]; jobs[k].retry = stale_retry[k]; } }
  jobs[0].refs = in_job_free ? 0 : 1; jobs[0].id = 5;
  q_has = in_has_entry; q_elt.id = ID; q_elt.dt = in_dt;
  if (in_idle) { pass[CH].id = 0; jobs[1].refs = in_job_free ? 0 : 1; jobs[1].id = 6; }
  else {
    pass[CH].id = ID; pass[CH].j = 1; pass[CH].fd = 9; pass[CH].mpos = in_mpos; fd_open = 1;
    substdio_fdbuf(&pass[CH].ss, read, 9, pass[CH].buf, sizeof pass[CH].buf);
    jobs[1].refs = 1; jobs[1].id = ID; jobs[1].channel = CH; jobs[1].numtodo = in_numtodo; jobs[1].flaghiteof = 0;
  }
  mpos0 = in_idle ? 0 : in_mpos;

  pass_dochan(CH);

  if (in_exitasap) {
    CHECK(n_open == 0 && n_del_start == 0 && n_delmin == 0 && n_job_close == 0, "C04: after TERM nothing is started");
    WITNESS("exitasap_nothing_started");
    return;
  }
  if (in_idle) {
    int started = (n_delmin == 1);
    if (!in_job_free || !in_has_entry || in_dt > in_recent) {
      CHECK(!started && n_open == 0 && n_insert == 0 && n_del_start == 0, "C15: no pass starts before the entry's due time (or without a free job slot)");
      if (in_has_entry && in_dt > in_recent && in_job_free) WITNESS("not_due_yet");
      return;
    }
    CHECK(started, "C15: a due entry is served when a job slot is free");
    if (in_open_fail || !in_getinfo_ok) {
      CHECK(n_insert == 1 && ins_id == ID && ins_dt == in_recent + SLEEP_SYSFAIL, "C03: trouble opening: the entry goes back on the queue, retried soon");
      CHECK(pass[CH].id == 0 && fd_open == 0 && n_del_start == 0, "no pass in progress after trouble");
      WITNESS("open_trouble_requeued");
      return;
    }
    CHECK(n_insert == 0, "C04: while its job is open the message is not on the channel queue");
    CHECK(n_nextretry == 1, "C15: retry time computed once per pass");
    {
      int j = (n_job_close == 1) ? closed_j : pass[CH].j;
      CHECK(j == 0 || j == 1, "job slot");
      CHECK(jobs[j].id == ID && jobs[j].channel == CH && jobs[j].retry == in_retry_val, "C15: job carries the message, channel and its nextretry() time");
      CHECK(jobs[j].flagdying == (in_recent > in_birth + in_lifetime), "C15: flagdying iff the message is older than the queue lifetime");
    }
    WITNESS("pass_started");
  }
  /* the reading step (also taken right after starting a pass) */
  if (!in_del_avail) {
    CHECK(n_del_start == 0 && n_job_close == 0 && rpos == 0, "C04: no record is read while the channel has no free delivery slot");
    CHECK(pass[CH].id == ID, "pass stays open");
    WITNESS("no_slot_waits");
    return;
  }
  {
    int j = in_idle ? ((n_job_close == 1) ? closed_j : pass[CH].j) : 1;
    int base_todo = in_idle ? 0 : in_numtodo;
    if (first_nul > RL) {                    /* no complete record left */
      CHECK(n_del_start == 0, "C04: nothing started without a complete record");
      CHECK(n_job_close == 1 && closed_j == j && pass[CH].id == 0 && fd_open == 0, "pass ends: file closed, job reference dropped");
      if (in_read_err) { CHECK(hiteof_at_close == 0, "C03: a read error never counts as end of file (the channel file is kept)"); WITNESS("read_error_abandons_pass"); }
      else { CHECK(hiteof_at_close == 1, "end of file recorded"); WITNESS("end_of_file"); }
    } else if (rec[0] == 'T') {
      CHECK(n_del_start == 1 && ds_j == j && ds_mpos == mpos0, "C03(2)/C04: one delivery started for this T record, remembering the offset of its first byte");
      CHECK(ds_reciplen == first_nul - 1 && (first_nul == 1 || ds_recip0 == (char) rec[1]), "the recipient handed over is the record's address");
      CHECK(jobs[j].numtodo == base_todo + 1, "C03(2): numtodo counts the T records seen");
      CHECK(pass[CH].id == ID && pass[CH].mpos == mpos0 + (long) first_nul + 1 && n_job_close == 0, "position advanced by the record length");
      WITNESS("T_record_started");
    } else if (rec[0] == 'D') {
      CHECK(n_del_start == 0, "C04: a recipient marked D is never attempted again");
      CHECK(jobs[j].numtodo == base_todo && pass[CH].id == ID && pass[CH].mpos == mpos0 + (long) first_nul + 1 && n_job_close == 0, "D record skipped");
      WITNESS("D_record_skipped");
    } else {
      CHECK(n_del_start == 0, "C18: an unknown record type starts nothing");
      CHECK(n_job_close == 1 && closed_j == j && hiteof_at_close == 0 && pass[CH].id == 0 && fd_open == 0, "C03: garbage abandons the pass without flaghiteof (file kept)");
      WITNESS("unknown_record_abandons_pass");
    }
  }
}
