/* C03 / C02 / C04 / C15 - single transitions of qmail-send.c on the queue files of ONE
 * message, each from an arbitrary (symbolic) pre-state, with every system call outcome
 * symbolic.  One function of /repo per MODE:
 *
 *   MODE 1  job_close()    C03(3): channel file unlinked only at EOF with nothing left to
 *                          do; otherwise (and on every failure) the message stays scheduled.
 *   MODE 2  markdone()     C03/C04: exactly one byte 'D' at the recipient's own offset.
 *   MODE 3  messdone()     C03(4)/C02: info is removed, and the cleaner asked to remove the
 *                          rest, only after local, remote and todo were seen absent (ENOENT,
 *                          not another error) and the bounce was injected; every failure
 *                          re-schedules the message.
 *   MODE 5  pqadd()        C03(6)/C15: restart: a message is put on the queue of every
 *                          channel file that exists (due time = its mtime), on pqdone if
 *                          none exists, on pqfail if a stat failed; todo present => left to
 *                          the preprocessor.
 *   MODE 6  cleanup_do()   C02: the cleaner is asked to remove a mess file only if it is
 *                          older than OSSIFIED and neither info nor todo exists.
 *
 *   MODE 7  pqrun()        C15: an ALRM makes every scheduled message due at once.
 *   MODE 8  pqfinish()     C15: on exit every scheduled message's due time is written to
 *                          its channel file's mtime (what pqadd reads back after restart).
 *                          (these two use the real prioq.c on pre-sized queues of NQ entries)
 *
 * The message number is concrete (so the path names built by the real fnmake_*()/fmtqfn()
 * are concrete strings); everything else is symbolic.
 */
#include "verif.h"
#include <errno.h>
#include <sys/types.h>
#include <sys/stat.h>
#include <sys/time.h>
#include <fcntl.h>
#include <unistd.h>
#include "gen_qmail-send.c"
#include "auto_split.h"

#ifndef MODE
#define MODE 1
#endif
#ifndef CH
#define CH 0
#endif
#define ID 77UL
#define TAPE 16
#define NOW 5000000L

enum { F_OTHER = 0, F_INFO, F_LOCAL, F_REMOTE, F_BOUNCE, F_TODO, F_INTD, F_MESS, F_FOOP, NFILES };

/* ---------------- symbolic inputs */
unsigned char tape[TAPE];            /* outcome of each system call, in call order */
unsigned char ex[NFILES];            /* which files of message ID exist */
long in_time[NFILES];                /* their mtime / atime as reported by stat */
int in_refs, in_hiteof, in_numtodo;  /* MODE 1 */
long in_retry, in_pos, in_recent;
int in_bounce_ok;                    /* MODE 3: result of injectbounce() */
unsigned char in_reply;              /* qmail-clean's answer */
int in_next;                         /* MODE 6: readsubdir_next result */
int in_flagcleanup;
long in_cleanuptime;
#ifndef NQ
#define NQ 2
#endif
long in_qdt_flat[2 * (NQ + 1)];      /* MODE 7/8: due times of the queued entries (ids concrete: 11, 12, .. / 21, 22, ..) */
#define in_qdt(c, k) in_qdt_flat[(c) * (NQ + 1) + (k)]

void sym_inputs(void)
{
#ifdef REPLAY
#include "replay_inputs.inc"
#else
  SYM_ARR(tape); SYM_ARR(ex); SYM_ARR(in_time); SYM(in_refs); SYM(in_hiteof); SYM(in_numtodo);
  SYM(in_retry); SYM(in_pos); SYM(in_recent); SYM(in_bounce_ok); SYM(in_reply); SYM(in_next);
  SYM(in_flagcleanup); SYM(in_cleanuptime);
  SYM_ARR(in_qdt_flat);
#endif
}

static unsigned int tp;
static unsigned char draw(void) { return tp < TAPE ? tape[tp++] : 0; }

/* ---------------- path classification (independent of fmtqfn: own formatter) */
static unsigned int put_num(char *s, unsigned long u)
{
  char t[24]; unsigned int n = 0, k;
  do { t[n++] = (char) ('0' + u % 10); u /= 10; } while (u && n < 20);
  for (k = 0; k < n; ++k) s[k] = t[n - 1 - k];
  return n;
}
static int same(const char *a, const char *b)
{
  unsigned int i;
  for (i = 0; i < 40; ++i) { if (a[i] != b[i]) return 0; if (!a[i]) return 1; }
  return 0;
}
static int classify(const char *p)
{
  static const char *pre[NFILES] = { "", "info/", "local/", "remote/", "bounce/", "todo/", "intd/", "mess/", "foop/" };
  static const int split[NFILES] = { 0, 1, 1, 1, 0, 0, 0, 1, 0 };
  int f;
  for (f = 1; f < NFILES; ++f) {
    char want[40]; unsigned int n = 0, i;
    for (i = 0; pre[f][i]; ++i) want[n++] = pre[f][i];
    if (split[f]) { n += put_num(want + n, ID % (unsigned long) auto_split); want[n++] = '/'; }
    n += put_num(want + n, ID); want[n] = 0;
    if (same(p, want)) return f;
  }
  return F_OTHER;
}

/* ---------------- observed effects */
static int n_unlink, unlinked_f, unlink_ok;
static int n_insert, ins_q, ins_dt_kind; static unsigned long ins_id; static long ins_dt;   /* last prioq_insert */
static int n_ins_chan[CHANNELS], n_ins_done, n_ins_fail; static long dt_chan[CHANNELS];
static int stat_seen[NFILES];       /* 0 not stat'ed, 1 exists, 2 ENOENT, 3 other error */
static int n_bounce_calls, bounce_before_unlink;
static int n_req; static int req_f; static int req_after_unlink;
static int opened_fd = -1, open_f, n_write, write_ok_shape, seek_done, n_close, fd_open;

#if MODE == 7 || MODE == 8
static struct prioq_elt qstore[2][NQ + 2];
static int n_utimes, ut_ok[2][NQ + 1];
int vf_utimes(const char *path, const struct timeval tv[2])
{
  int c, k;
  ++n_utimes;
  CHECK(path == fn.s, "utimes on the name built by fnmake_chanaddr");
  for (c = 0; c < 2; ++c) for (k = 0; k < NQ; ++k) {
    char want[40]; unsigned int n = 0, i; const char *pre = c ? "remote/" : "local/"; unsigned long id = (unsigned long) (10 * (c + 1) + k + 1);
    for (i = 0; pre[i]; ++i) want[n++] = pre[i];
    n += put_num(want + n, id % (unsigned long) auto_split); want[n++] = '/'; n += put_num(want + n, id); want[n] = 0;
    if (same(path, want)) {
      CHECK(tv[0].tv_sec == in_qdt(c, k) && tv[1].tv_sec == in_qdt(c, k), "C15: the schedule is saved: mtime of the channel file = the entry's due time");
      ut_ok[c][k] += 1;
    }
  }
  return (draw() & 1) ? -1 : 0;
}
#else
/* prioq_insert is cut: which queue, which element */
int prioq_insert(prioq *pq, struct prioq_elt *pe)
{
  ++n_insert; ins_id = pe->id; ins_dt = pe->dt;
  if (pq == &pqchan[0]) { ++n_ins_chan[0]; dt_chan[0] = pe->dt; }
  else if (pq == &pqchan[1]) { ++n_ins_chan[1]; dt_chan[1] = pe->dt; }
  else if (pq == &pqdone) ++n_ins_done;
  else if (pq == &pqfail) ++n_ins_fail;
  else CHECK(0, "insert into an unknown queue");
  CHECK(pe->id == ID, "C03: the re-scheduled entry is this message");
  return 1;
}

#endif

int injectbounce(unsigned long id)
{
  CHECK(id == ID, "injectbounce for this message");
  ++n_bounce_calls;
  if (n_unlink == 0) bounce_before_unlink = 1;
  /* the cut must be as loose as the callee: injectbounce() builds the names of mess/N and bounce/N in the shared file-name
   * buffers fn and fn2 (and may leave anything there), so the caller cannot rely on what they held before the call */
  if (fn.s) { fn.s[0] = 'm'; fn.s[1] = 'e'; fn.s[2] = 's'; fn.s[3] = 's'; fn.s[4] = '/'; fn.s[5] = 'X'; fn.s[6] = 0; fn.len = 7; }
  if (fn2.s) { fn2.s[0] = 'b'; fn2.s[1] = '/'; fn2.s[2] = 'X'; fn2.s[3] = 0; fn2.len = 4; }
  return in_bounce_ok;
}

int readsubdir_next(readsubdir *rs, unsigned long *id) { if (in_next == 1) *id = ID; return in_next; }
void readsubdir_init(readsubdir *rs, char *name, void (*pause)()) { CHECK(name[0] == 'm', "cleanup scans mess/"); }

void log1(char *a) {} void qslog2(char *a, char *b) {} void log3(char *a, char *b, char *c) {}
void logsa(stralloc *s) {} void logsafe(char *s) {} void nomem(void) {} void pausedir(char *d) {}
time_t vf_time(time_t *t) { return NOW; }

int vf_stat(const char *path, struct stat *st)
{
  int f = classify(path);
  unsigned char t = draw();
  CHECK(f != F_OTHER, "C02: only files of this message are examined");
  if (t & 1) { errno = EIO; stat_seen[f] = 3; return -1; }
  if (!ex[f]) { errno = ENOENT; stat_seen[f] = 2; return -1; }
  stat_seen[f] = 1;
  st->st_mtime = in_time[f]; st->st_atime = in_time[f];
  return 0;
}

int vf_unlink(const char *path)
{
  int f = classify(path);
  unsigned char t = draw();
  ++n_unlink; unlinked_f = f;
#if MODE == 1
  CHECK(f == (CH == 0 ? F_LOCAL : F_REMOTE), "C03(3): job_close unlinks only its own channel file");
  CHECK(in_refs == 1 && in_hiteof && in_numtodo == 0, "C03(3): a channel file is unlinked only when the pass hit EOF and nothing is left to do");
#elif MODE == 3
  CHECK(f == F_INFO, "C02: messdone itself unlinks only info/N");
  CHECK(stat_seen[F_LOCAL] == 2 && stat_seen[F_REMOTE] == 2 && stat_seen[F_TODO] == 2,
        "C03(4): info removed only after local, remote and todo were seen absent (ENOENT)");
  CHECK(stat_seen[F_INFO] == 1, "info existed");
  CHECK(n_bounce_calls == 1 && in_bounce_ok, "C03(4): info removed only after the bounce was injected successfully");
#else
  CHECK(0, "C02: this transition unlinks nothing");
#endif
  if (t & 1) { errno = EIO; unlink_ok = 0; return -1; }
  unlink_ok = 1; ex[f] = 0;
  return 0;
}

int vf_open(const char *path, int flags, ...)
{
  int f = classify(path);
  unsigned char t = draw();
#if MODE == 2
  CHECK(f == (CH == 0 ? F_LOCAL : F_REMOTE), "C04: markdone opens the recipient's own channel file");
  CHECK((flags & O_ACCMODE) == O_WRONLY && !(flags & (O_CREAT | O_TRUNC | O_APPEND)), "markdone opens for plain writing");
  CHECK(fd_open == 0, "one descriptor at a time");
#else
  CHECK(0, "this transition opens nothing");
#endif
  if (t & 1) { errno = ENOENT; return -1; }
  opened_fd = 7; fd_open = 1; open_f = f; seek_done = 0;
  return 7;
}

int vf_fstat(int fd, struct stat *st) { unsigned char t = draw(); CHECK(fd == 7 && fd_open, "fstat on the open file"); if (t & 1) { errno = EIO; return -1; } return 0; }

off_t vf_lseek(int fd, off_t off, int whence)
{
  unsigned char t = draw();
  CHECK(fd == 7 && fd_open && whence == SEEK_SET && off == in_pos, "C04: seeks to the recipient's own record offset");
  if (t & 1) { errno = EIO; return -1; }
  seek_done = 1;
  return off;
}

ssize_t vf_write(int fd, const void *buf, size_t n)
{
  unsigned char t = draw();
  ++n_write;
  CHECK(fd == 7 && fd_open && seek_done, "C04: the mark is written only after a successful seek on the open channel file");
  CHECK(n == 1 && ((const char *) buf)[0] == 'D', "C04: the completion mark is the single byte 'D'");
  CHECK(n_write == 1, "C04: one mark");
  if (t & 1) { errno = EIO; return -1; }
  if (t & 2) return 0;
  return 1;
}

int vf_close(int fd) { CHECK(fd == 7 && fd_open, "closes what it opened"); fd_open = 0; ++n_close; return 0; }
ssize_t vf_read(int fd, void *buf, size_t n) { CHECK(0, "no direct read in these transitions"); return -1; }

/* qmail-clean pipe */
ssize_t substdio_get(substdio *s, char *buf, size_t len)
{
  unsigned char t = draw();
  CHECK(s == &ssfromqc && len == 1, "reads one status byte from qmail-clean");
  CHECK(n_req == 1, "C18: waits for the cleaner's answer only after a request");
  if (t & 1) return 0;
  *buf = (char) in_reply;
  return 1;
}

/* the request to qmail-clean is observed at substdio_putflush level */
#include "substdio.h"
int substdio_putflush(substdio *s, const char *buf, size_t len)
{
  int f = classify(buf);
  ++n_req; req_f = f; req_after_unlink = (n_unlink > 0 && unlink_ok);
  CHECK(s == &sstoqc, "requests go to qmail-clean");
  CHECK(len == fn.len && buf == fn.s && buf[len - 1] == 0, "request is the NUL-terminated file name");
#if MODE == 3
  CHECK(f == F_FOOP, "C02: messdone asks the cleaner for foop/N (intd, then mess) of this message");
  CHECK(n_unlink == 1 && unlink_ok && unlinked_f == F_INFO, "C02/C03(4): the cleaner is asked only after info/N is gone");
#elif MODE == 6
  CHECK(f == F_FOOP, "C02: cleanup asks the cleaner for foop/N of the stale message");
  CHECK(stat_seen[F_MESS] == 1 && in_recent > in_time[F_MESS] + OSSIFIED, "C02: only mess files older than OSSIFIED (36 h) are collected");
  CHECK(stat_seen[F_INFO] == 2 && stat_seen[F_TODO] == 2, "C02: only when neither info/N nor todo/N exists (ENOENT)");
#else
  CHECK(0, "this transition does not talk to qmail-clean");
#endif
  return (draw() & 1) ? -1 : 0;
}

static struct job jobs[2];

void vmain(void)
{
  int f;
  sym_inputs();
  for (f = 0; f < NFILES; ++f) { ASSUME(ex[f] <= 1); ASSUME(in_time[f] >= 0 && in_time[f] < (1L << 40)); }
  ASSUME(in_recent >= 0 && in_recent < (1L << 40));
  recent = in_recent;
  fnmake_init();
  numjobs = 2; jo = jobs;

#if MODE == 1
  ASSUME(in_refs >= 1 && in_refs <= 3 && (in_hiteof == 0 || in_hiteof == 1) && in_numtodo >= 0 && in_numtodo <= 2);
  jobs[1].refs = in_refs; jobs[1].id = ID; jobs[1].channel = CH; jobs[1].retry = in_retry;
  jobs[1].numtodo = in_numtodo; jobs[1].flaghiteof = in_hiteof;
  job_close(1);
  if (in_refs > 1) {
    CHECK(jobs[1].refs == in_refs - 1 && n_unlink == 0 && n_insert == 0, "C04: a job with attempts still in flight is only un-referenced");
    WITNESS("still_referenced");
  } else {
    CHECK(jobs[1].refs == 0, "job slot freed");
    CHECK((n_unlink == 1) == (in_hiteof && in_numtodo == 0), "C03(3): channel file removed iff EOF was hit and nothing is left to do");
    if (n_unlink == 0) {
      CHECK(n_insert == 1 && n_ins_chan[CH] == 1 && dt_chan[CH] == in_retry, "C03/C15: unfinished message goes back on its channel queue, due at its retry time");
      WITNESS("requeued_for_retry");
    } else if (!unlink_ok) {
      CHECK(n_insert == 1 && n_ins_chan[CH] == 1 && dt_chan[CH] == NOW + SLEEP_SYSFAIL, "C03: failed unlink: stays on its channel queue, retried soon");
      WITNESS("unlink_failed_requeued");
    } else if (stat_seen[CH == 0 ? F_REMOTE : F_LOCAL] == 1) {
      CHECK(n_insert == 0, "other channel still going: its own queue entry keeps the message alive");
      WITNESS("other_channel_going");
    } else {
      CHECK(n_insert == 1 && n_ins_done == 1, "C03: channel finished: message handed to pqdone (never dropped)");
      WITNESS("handed_to_pqdone");
    }
  }
#elif MODE == 2
  ASSUME(in_pos >= 0 && in_pos < (1L << 40));
  markdone(CH, ID, (seek_pos) in_pos);
  CHECK(fd_open == 0, "descriptor closed on every path");
  CHECK(n_write <= 1, "at most one mark");
  if (n_write == 1) WITNESS("marked");
  if (n_write == 0) WITNESS("mark_failed_before_write");
#elif MODE == 3
  ASSUME(in_bounce_ok == 0 || in_bounce_ok == 1);
  messdone(ID);
  if (n_unlink == 1 && unlink_ok) {
    CHECK(n_insert == 0, "finished message is not re-scheduled");
    if (n_req == 1) WITNESS("message_finished");
  }
  /* not lost: unless the message is really finished (info gone) or another holder exists, it is back on pqdone */
  if (!(n_unlink == 1 && unlink_ok)) {
    int other_holder = stat_seen[F_LOCAL] == 1 || stat_seen[F_REMOTE] == 1 || stat_seen[F_TODO] == 1;
    int already_gone = stat_seen[F_INFO] == 2;
    CHECK(n_req == 0, "C02: the cleaner is not asked while info/N exists");
    if (other_holder) { CHECK(n_insert == 0 && n_bounce_calls == 0, "false alarm: a channel file or todo still exists, nothing is done"); WITNESS("false_alarm"); }
    else if (already_gone) { CHECK(n_insert == 0 && n_bounce_calls == 0, "info already gone: nothing to do"); WITNESS("already_gone"); }
    else { CHECK(n_insert == 1 && n_ins_done == 1 && ins_dt == NOW + SLEEP_SYSFAIL, "C03(4): every failure re-schedules the message on pqdone"); WITNESS("failure_rescheduled"); }
  }
#elif MODE == 5
  pqadd(ID);
  {
    int any_err = 0, nchan = 0, c;
    for (f = 0; f < NFILES; ++f) if (stat_seen[f] == 3) any_err = 1;
    if (any_err) {
      CHECK(n_insert == 1 && n_ins_fail == 1 && ins_dt == NOW + SLEEP_SYSFAIL, "C03(6): a failing stat puts the message on pqfail, to be added again");
      WITNESS("stat_failed");
    } else if (!ex[F_INFO]) { CHECK(n_insert == 0, "no info: not a message"); WITNESS("no_info"); }
    else if (ex[F_TODO]) { CHECK(n_insert == 0, "C02: todo exists: left to the preprocessor"); WITNESS("todo_pending"); }
    else {
      for (c = 0; c < CHANNELS; ++c) {
        int fc = (c == 0) ? F_LOCAL : F_REMOTE;
        CHECK(n_ins_chan[c] == (ex[fc] ? 1 : 0), "C03(6): scheduled on exactly the channels whose recipient list exists");
        if (ex[fc]) { ++nchan; CHECK(dt_chan[c] == in_time[fc], "C15: the schedule survives a restart: due time = mtime of the channel file"); }
      }
      CHECK(n_ins_done == (nchan == 0 ? 1 : 0), "C03(6): no channel file left: handed to pqdone");
      CHECK(n_ins_fail == 0, "no failure");
      if (nchan == 2) WITNESS("both_channels");
      if (nchan == 0) WITNESS("done_only");
    }
  }
#elif MODE == 7 || MODE == 8
  {
    int c, k;
    for (c = 0; c < 2; ++c) {
      pqchan[c].p = qstore[c]; pqchan[c].len = 0; pqchan[c].a = NQ + 2;
      for (k = 0; k < NQ; ++k) {
        struct prioq_elt pe; pe.id = (unsigned long) (10 * (c + 1) + k + 1); pe.dt = in_qdt(c, k);
        ASSUME(in_qdt(c, k) >= 0 && in_qdt(c, k) < (1L << 40));
        CHECK(prioq_insert(&pqchan[c], &pe), "pre-sized queue");
      }
    }
#if MODE == 7
    pqrun();
    for (c = 0; c < 2; ++c) {
      CHECK(pqchan[c].len == NQ, "C15: ALRM loses no entry");
      for (k = 0; k < NQ; ++k) {
        CHECK(pqchan[c].p[k].dt == in_recent, "C15: after ALRM every scheduled message is due at once");
        CHECK(pqchan[c].p[k].id / 10 == (unsigned long) (c + 1), "entries stay on their channel");
      }
    }
    WITNESS("all_due");
#else
    pqfinish();
    for (c = 0; c < 2; ++c) {
      CHECK(pqchan[c].len == 0, "queues drained on exit");
      for (k = 0; k < NQ; ++k) CHECK(ut_ok[c][k] == 1, "C15: every scheduled message's due time is written to its own channel file exactly once");
    }
    CHECK(n_utimes == 2 * NQ, "one utimes per queue entry");
    WITNESS("schedule_saved");
#endif
  }
#elif MODE == 6
  ASSUME(in_next >= -1 && in_next <= 1);
  ASSUME(in_flagcleanup == 0 || in_flagcleanup == 1);
  ASSUME(in_cleanuptime >= 0 && in_cleanuptime < (1L << 40));
  flagcleanup = in_flagcleanup; cleanuptime = in_cleanuptime;
  cleanup_do();
  CHECK(n_unlink == 0, "C02: the daemon never unlinks mess files itself");
  if (n_req == 1) WITNESS("stale_file_collected");
  if (n_req == 0 && stat_seen[F_MESS] == 1) WITNESS("young_or_live_file_kept");
#endif
}
