/* C03(1) / C04 / C18 / C15 - qmail-send.c del_dochan(): one read of a delivery-report
 * channel, from an ARBITRARY valid daemon state, with ARBITRARY report bytes.
 *
 * Encoded from /repo: qmail-send.c del_dochan (real), spawndied (real); stralloc units.
 * Cut (observed) callees: markdone, addbounce, job_close, del_status and qsutil logging;
 * each is verified on its own (C03 job_close/markdone obligations, C14 addbounce).
 *
 * Reference (INTERNALS.md, qmail-send(8), the property text): a report is
 *   <delnum byte> <letter> <text> NUL.   Only a report whose delnum names a slot in use
 *   has any effect.  K: mark the recipient done.  D: append the bounce note, THEN mark
 *   done.  Z: nothing - unless the message is past its lifetime (flagdying), when it is
 *   treated as D with an explanatory text.  Anything else ("garbled"): nothing.
 *   In all four cases the attempt is over: the job reference is dropped and the slot is
 *   freed.  A lost spawner (read returns 0) or a read error marks nothing.
 */
#include "verif.h"
#include <errno.h>
#include "gen_qmail-send.c"

#ifndef R
#define R 5               /* bytes returned by this read() */
#endif
#ifndef P
#define P 0               /* bytes of an incomplete report left over from the previous read */
#endif
#ifndef STRICT
#define STRICT 1          /* 1: well-framed streams (no empty report), exact event oracle; 0: any bytes, safety oracle only */
#endif
#define NC 3              /* concurrency of the channel */
#define NJ 2              /* job slots */
#define MAXEV (3 * ((R + P) / 3) + 3)   /* a report with an effect needs >= 3 bytes and has <= 3 effects */

/* ---------------- symbolic pre-state and input */
#ifndef CH
#define CH 0              /* channel (concrete per query: a symbolic channel makes every d[c][..] access a case split) */
#endif
#define in_c CH
unsigned char in_used[NC], in_j[NC];
long in_mpos[NC];
unsigned long in_jid[NJ];
int in_numtodo[NJ], in_dying[NJ], in_refs[NJ];
unsigned char pre[P + 1];                   /* left-over bytes (no NUL among them) */
unsigned char rep[R + 1];                   /* bytes of this read */
int in_readkind;                            /* 0 data, 1 EOF (spawner died), 2 error */

void sym_inputs(void)
{
#ifdef REPLAY
#include "replay_inputs.inc"
#else
  SYM_ARR(in_used); SYM_ARR(in_j); SYM_ARR(in_mpos); SYM_ARR(in_jid);
  SYM_ARR(in_numtodo); SYM_ARR(in_dying); SYM_ARR(in_refs); SYM_ARR(pre); SYM_ARR(rep); SYM(in_readkind);
#endif
}

static struct del dels[CHANNELS][NC];
static struct job jobs[NJ];
static char recips[NC][4] = { "a@b", "c@d", "e@f" };

/* ---------------- observed events */
enum { EV_MARK = 1, EV_BOUNCE, EV_CLOSE };
/* separate scalar arrays: a struct array written at a symbolic index is rebuilt field by
 * field for every element (measured: 30 MB of SSA for an 8 x 7 struct log) */
static unsigned char ev_kind[MAXEV];
static unsigned long ev_id[MAXEV];
static long ev_pos[MAXEV];
static signed char ev_cj[MAXEV];          /* MARK: channel; CLOSE: job; BOUNCE: recipient slot */
static unsigned int nev;
static void push(int kind, unsigned long id, long pos, int cj)
{
  CHECK(nev < MAXEV, "more events than reports possible in R bytes (harness sizing)");
  if (nev < MAXEV) { ev_kind[nev] = (unsigned char) kind; ev_id[nev] = id; ev_pos[nev] = pos; ev_cj[nev] = (signed char) cj; ++nev; }
}
static int recip_slot(const char *r) { return r == recips[0] ? 0 : r == recips[1] ? 1 : r == recips[2] ? 2 : -1; }

void markdone(int c, unsigned long id, seek_pos pos) { push(EV_MARK, id, (long) pos, c); }
void addbounce(unsigned long id, char *recip, char *report)
{
  push(EV_BOUNCE, id, 0, recip_slot(recip));
  /* the text handed to addbounce is a NUL-terminated string inside the report buffer.
   * An oversized report is truncated to REPORTMAX bytes; its terminator then sits right
   * behind them.  (The buffer is pre-filled with garbage, as heap memory would be.) */
  CHECK(report == dline[in_c].s + 2, "C18: bounce text is the report text");
  {
    unsigned int i, ok = 0;
    /* (+80: the "in the queue too long" sentence appended to an expired Z report) */
    for (i = 0; i < P + R + 80; ++i) { if (i + 2 > REPORTMAX + 80) break; if (!report[i]) { ok = 1; break; } }
    CHECK(ok, "C18: bounce text is NUL-terminated inside the (possibly truncated) report");
  }
}
void job_close(int j) { push(EV_CLOSE, 0, 0, j); }
void del_status(void) {}
unsigned int fmt_ulong(char *s, unsigned long u) { if (s) s[0] = '0'; return 1; }   /* only used for log lines here */
void log1(char *a) {} void qslog2(char *a, char *b) {} void log3(char *a, char *b, char *c) {}
void logsa(stralloc *s) {} void logsafe(char *s) {} void nomem(void) {} void pausedir(char *d) {}

ssize_t vf_read(int fd, void *buf, size_t n)
{
  unsigned int i;
  CHECK(fd == chanfdin[in_c], "reports are read from the channel's descriptor");
  CHECK(n >= R, "read buffer large enough");
  if (in_readkind == 2) { errno = EIO; return -1; }
  if (in_readkind == 1) return 0;
  for (i = 0; i < R; ++i) ((char *) buf)[i] = (char) rep[i];
  return R;
}

/* ---------------- reference */
static unsigned char ref_used[NC];
static int ref_numtodo[NJ];
static unsigned int xnev;                     /* events the reference expects so far */
static unsigned int ref_cused;

static void expect(int kind, unsigned long id, long pos, int cj)
{
  CHECK(xnev < nev, "C03/C18: an expected effect of a report is missing");
  if (xnev < nev && xnev < MAXEV) {
    CHECK(ev_kind[xnev] == kind, "C03: effects of a report occur in the documented order (bounce note before the D mark)");
    if (kind == EV_MARK) CHECK(ev_cj[xnev] == cj && ev_id[xnev] == id && ev_pos[xnev] == pos, "C03/C04: the D mark goes to this recipient's own record (channel, message, offset)");
    if (kind == EV_BOUNCE) CHECK(ev_id[xnev] == id && ev_cj[xnev] == cj, "C03/C14: the bounce note names this message and this recipient");
    if (kind == EV_CLOSE) CHECK(ev_cj[xnev] == cj, "C04: the finished attempt drops its own job reference");
  }
  ++xnev;
}

static void ref_report(const unsigned char *s, unsigned int len)   /* s[0..len) includes the final NUL, len > 1 */
{
  unsigned int delnum = s[0];
  unsigned char letter = s[1];
  int j;
  if (delnum >= NC || !ref_used[delnum]) return;                  /* out of range / unused: no effect at all */
  j = in_j[delnum];
  if (letter == 'Z' && in_dying[j]) letter = 'D';                 /* C15: past the queue lifetime */
  if (letter == 'K') { expect(EV_MARK, in_jid[j], in_mpos[delnum], in_c); --ref_numtodo[j]; }
  else if (letter == 'D') {
    expect(EV_BOUNCE, in_jid[j], 0, (int) delnum);
    expect(EV_MARK, in_jid[j], in_mpos[delnum], in_c);
    --ref_numtodo[j];
  }
  expect(EV_CLOSE, 0, 0, j);
  ref_used[delnum] = 0; --ref_cused;
}

void vmain(void)
{
  unsigned int i, k, used0 = 0;
  unsigned char cur[P + R + 2];
  unsigned int curlen = 0;
  sym_inputs();
  ASSUME(in_readkind >= 0 && in_readkind <= 2);
  /* arbitrary valid daemon state */
  numjobs = NJ; jo = jobs;
  for (k = 0; k < NJ; ++k) {
    ASSUME(in_numtodo[k] >= 0 && in_numtodo[k] <= 1000 && in_refs[k] >= 1 && in_refs[k] <= 1000);
    ASSUME(in_dying[k] == 0 || in_dying[k] == 1);
    jobs[k].refs = in_refs[k]; jobs[k].id = in_jid[k]; jobs[k].channel = in_c;
    jobs[k].numtodo = in_numtodo[k]; jobs[k].flagdying = in_dying[k]; jobs[k].flaghiteof = 0;
    ref_numtodo[k] = in_numtodo[k];
  }
  concurrency[in_c] = NC; d[in_c] = dels[in_c]; d[1 - in_c] = dels[1 - in_c]; concurrency[1 - in_c] = NC;
  for (i = 0; i < NC; ++i) {
    ASSUME(in_used[i] <= 1 && in_j[i] < NJ);
    dels[in_c][i].used = in_used[i]; dels[in_c][i].j = in_j[i]; dels[in_c][i].mpos = in_mpos[i];
    dels[in_c][i].delid = 100 + i; dels[in_c][i].recip.s = recips[i]; dels[in_c][i].recip.len = 4; dels[in_c][i].recip.a = 4;
    ref_used[i] = in_used[i]; used0 += in_used[i];
  }
  concurrencyused[in_c] = used0; ref_cused = used0;
  flagspawnalive[0] = flagspawnalive[1] = 1;
  /* left-over of the previous read: an incomplete report */
  if (!stralloc_copys(&dline[in_c], "")) return;
  for (i = 0; i < ARENA_CAP; ++i) dline[in_c].s[i] = (char) 0xAA;      /* heap garbage, not zeroes */
  for (i = 0; i < P; ++i) { char ch = (char) pre[i]; ASSUME(pre[i] != 0); stralloc_append(&dline[in_c], &ch); cur[curlen++] = pre[i]; }
#if STRICT
  /* well-framed stream: the spawners never send an empty report (two NULs in a row) */
  for (i = 0; i < R; ++i) { int prev_nul = (i == 0) ? (P == 0) : (rep[i - 1] == 0); ASSUME(!(rep[i] == 0 && prev_nul)); }
#endif

  del_dochan(in_c);

  if (in_readkind == 0) {
#if STRICT
    for (i = 0; i < R; ++i) {
      cur[curlen++] = rep[i];
      if (rep[i] == 0) { if (curlen > 1) ref_report(cur, curlen); curlen = 0; }
    }
    CHECK(xnev == nev, "C03/C18: no effect beyond what the reports call for");
    for (k = 0; k < NJ; ++k) CHECK(jobs[k].numtodo == ref_numtodo[k], "C03: numtodo drops only for K, D and expired-Z reports");
    for (i = 0; i < NC; ++i) CHECK(dels[in_c][i].used == ref_used[i], "C04: exactly the reported attempts are finished");
    CHECK(dline[in_c].len == (curlen < REPORTMAX ? curlen : REPORTMAX), "an incomplete report is kept for the next read (at most REPORTMAX bytes of it)");
#endif
  } else {
    CHECK(nev == 0, "C03: a lost spawner or a read error marks nothing and finishes nothing");
    for (i = 0; i < NC; ++i) CHECK(dels[in_c][i].used == in_used[i], "C03: slots unchanged without a report");
    if (in_readkind == 1) { CHECK(flagspawnalive[in_c] == 0 && flagexitasap == 1, "lost spawner: channel dead, daemon stops"); WITNESS("spawner_died"); }
  }
  /* safety oracle, for ANY byte stream: every D mark is justified by a slot that was in
   * use before the call, goes to that slot's record, and at most one mark per slot */
  {
    unsigned int marks_for[NC] = { 0 };
    for (k = 0; k < MAXEV; ++k) {
      if (k >= nev) break;
      if (ev_kind[k] == EV_MARK) {
        int found = 0;
        for (i = 0; i < NC; ++i)
          if (in_used[i] && ev_cj[k] == in_c && ev_id[k] == in_jid[in_j[i]] && ev_pos[k] == in_mpos[i] && !found && marks_for[i] == 0) { found = 1; ++marks_for[i]; }
        CHECK(found, "C18: a D mark is written only for a delivery that was in flight, at its own offset, once");
      }
    }
  }
  /* C04 invariant: concurrencyused == number of used slots <= concurrency */
  { unsigned int u = 0; for (i = 0; i < NC; ++i) u += dels[in_c][i].used;
    CHECK(concurrencyused[in_c] == u && u <= concurrency[in_c], "C04: concurrencyused equals the number of attempts in flight"); }
  CHECK(concurrencyused[1 - in_c] == 0, "the other channel is untouched");
  if (in_readkind == 0) {
    if (nev == 1 && ev_kind[0] == EV_CLOSE) WITNESS("deferral_or_garbled");
    if (nev >= 3 && ev_kind[0] == EV_BOUNCE) WITNESS("permanent_failure_bounced");
    if (nev >= 2 && ev_kind[0] == EV_MARK) WITNESS("success_marked");
    if (nev == 0) WITNESS("no_effect");
    if (nev >= 4) WITNESS("two_reports_in_one_read");
  }
}
