/* C03 / C02 / C04 - readsubdir.c: which message numbers a scan of a split queue directory
 * (info/ at restart: pqstart; mess/ for the cleanups: cleanup_do) hands to its caller.
 *
 * Encoded from /repo: readsubdir.c readsubdir_init, readsubdir_next (real), scan_ulong.c,
 * fmt_ulong.c, fmt_str.c; auto_split is the real variable, set to SPLIT.
 * Environment: dirmodel.h (symbolic tree, opendir may fail OF times in a row).
 *
 * Reference.  INTERNALS.md section 2: the files of message 457 are info/457, mess/457 ..
 * (in the split directories: <dir>/<457 mod split>/457); property C03: "restart rebuilds
 * all schedules from info/, local/, remote/".  So a scan must hand out, exactly once,
 * the number of every entry whose name is a decimal number, and nothing else.  What the
 * callers rely on for the return value (qmail-send.c: pqstart `while ((x = next)) if (x > 0)
 * pqadd(id)`, cleanup_do `case 1: .. case 0: end  default: return`): 1 = *id is a message
 * number, 0 = scan complete, negative = nothing this time, call again.
 * The documents say nothing about entries that are not numbers ("." ".." ".nfsXXXX"
 * "core" "12a"): the only demand made here is that no number is handed out for them; a
 * negative result of any value is accepted (the code answers -1 for "." and "..", -2
 * for the rest, and its callers do not distinguish them).  A name with leading zeros
 * ("007") is a decimal number and is handed out as 7 - accepted, not demanded otherwise
 * (qmail never creates such a file; fmtqfn_names shows names are canonical).
 * Failing opendir: readsubdir.c's contract is taken to be "call pause(dirname), try again,
 * never skip" - pausedir() sleeps 10 s and the alternative (skipping info/7 at restart)
 * would silently forget every message stored there.
 * Outside: names longer than NL bytes (so also numbers that overflow 64 bits), more than
 * K entries per subdirectory, readdir failing half way (indistinguishable from the end
 * for the code: it tests only for a null result), a directory name longer than
 * READSUBDIR_NAMELEN.
 */
#include "verif.h"
#define DM_DIRNAME "mess"
#include "dirmodel.h"
#include "readsubdir.h"
#include "auto_split.h"
extern void readsubdir_init(readsubdir *rs, char *name, void (*pause)());
extern int readsubdir_next(readsubdir *rs, unsigned long *id);

#define MAXSTEP (SPLIT * (K + 2) + 1)    /* per subdirectory: open, K entries, end; then the final 0 */

unsigned long in_junk;                   /* what *id holds before each call */

void sym_inputs(void)
{
#ifdef REPLAY
#include "replay_inputs.inc"
#else
  DM_SYM_INPUTS(); SYM(in_junk);
#endif
}

static readsubdir rs;
static char dirname_[] = DM_DIRNAME;

void vmain(void)
{
  unsigned int step; int done = 0;
  sym_inputs();
  dm_prepare();
  auto_split = SPLIT;

  readsubdir_init(&rs, dirname_, dm_pause);
  for (step = 0; step < MAXSTEP; ++step) {
    unsigned long id = in_junk;
    int r = readsubdir_next(&rs, &id);
    CHECK(r == 1 || r == 0 || r < 0, "result is 1 (number), 0 (end) or negative (nothing this time): the callers agree on nothing else");
    if (r == 0) { done = 1; break; }
    if (r > 0) dm_consume(id);
  }
  CHECK(done, "C03: after the last entry the scan returns 0 (one call per open, entry and end of directory)");
  if (!done) return;
  dm_finish();
  if (dm_nconsumed > 0) WITNESS("number_handed_out");
  if (dm_nconsumed == DM_NENT) WITNESS("all_entries_numbers");
  if (dm_nskipped_dot > 0) WITNESS("dot_name_skipped");
  if (dm_nskipped_other > 0) WITNESS("other_name_skipped");
  if (dm_nfail > 0) WITNESS("opendir_failed_paused_retried");
  if (dm_cnt[0] == 0) WITNESS("empty_subdirectory");
  WITNESS("scan_complete");
}
