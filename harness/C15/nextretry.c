/* C15 - qmail-send.c nextretry(): quadratic back-off strictly in the future.
 * squareroot() is cut and replaced by the contract proved in sqrt.c
 * (result^2 <= x < (result+1)^2), so the two queries compose. */
#include "verif.h"
#include "datetime.h"
static datetime_sec sq_ret;      /* what the contract stub returned */
static int sq_called;
#ifdef VERIF_CBMC
static datetime_sec squareroot(datetime_sec x)
{
  datetime_sec r;
  CHECK(x >= 0 && x <= 4294967295L, "squareroot called inside its proved domain");
  ASSUME(r >= 0 && r <= 65535);
  ASSUME(r * r <= x && x < (r + 1) * (r + 1));
  sq_ret = r; sq_called = 1;
  return r;
}
#else
/* native replay: the contract's unique solution, computed without the code under test */
static datetime_sec squareroot(datetime_sec x)
{
  datetime_sec r = 0;
  sq_called = 1;
  if (x < 0 || x > 4294967295L) vf_native_fail("squareroot called inside its proved domain");
  while ((r + 1) * (r + 1) <= x) ++r;
  return sq_ret = r;
}
#endif
#include "gen_qmail-send.c"

#ifndef CHAN
#define CHAN 0          /* channel concrete per query: skip is then a constant (10 local, 20 remote) */
#endif
datetime_sec in_birth, in_recent;
#define in_c CHAN

void sym_inputs(void)
{
#ifdef REPLAY
#include "replay_inputs.inc"
#else
  SYM(in_birth); SYM(in_recent);
#endif
}

void vmain(void)
{
  datetime_sec t, skip;
  sym_inputs();
  ASSUME(in_birth >= 0 && in_birth < (1L << 40));
  ASSUME(in_recent >= 0 && in_recent < (1L << 40));
  ASSUME(in_recent - in_birth <= 4294967295L);          /* age < 2^32 s (136 years) */
  recent = in_recent;
  skip = CHAN ? 20 : 10;                                  /* qmail-send(8): local 10, remote 20 */
  CHECK(chanskip[in_c] == skip, "C15: chanskip is 10 for local, 20 for remote");
  t = nextretry(in_birth, in_c);
  CHECK(t > in_recent, "C15: next retry time lies strictly in the future");
  if (in_birth > in_recent) {
    CHECK(!sq_called && t == in_birth + skip * skip, "C15: message from the future: birth + skip^2");
    WITNESS("birth_in_future");
  } else {
    CHECK(sq_called && t == in_birth + (sq_ret + skip) * (sq_ret + skip),
          "C15: retry = birth + (floor(sqrt(age)) + skip)^2");
    if (in_recent - in_birth == 4294967295L) WITNESS("max_age");
    WITNESS("normal");
  }
}
