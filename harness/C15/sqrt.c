/* C15 - qmail-send.c squareroot(): exact integer square root for every age 0..2^32-1.
 * Encoded from /repo: qmail-send.c squareroot (static, reached by #include). */
#include "verif.h"
#include "gen_qmail-send.c"

datetime_sec x;

void sym_inputs(void)
{
#ifdef REPLAY
#include "replay_inputs.inc"
#else
  SYM(x);
#endif
}

void vmain(void)
{
  datetime_sec r;
  sym_inputs();
  ASSUME(x >= 0 && x <= 4294967295L);
  r = squareroot(x);
  CHECK(r >= 0 && r <= 65535, "C15: squareroot result in 0..65535");
  CHECK(r * r <= x, "C15: squareroot(x)^2 <= x");
  CHECK(x < (r + 1) * (r + 1), "C15: x < (squareroot(x)+1)^2");
  if (x == 4294967295L) WITNESS("max_age");
  if (x == 0) WITNESS("zero_age");
}
