from vlib import load_plan, Obl, Prog, borrow

def obligations(tier):
    nmax = 12 if tier == "quick" else 20
    send = Prog("qmail-send.c", nomain=True)
    # due-time gate, flagdying, expired-Z handling, restart schedule: qmail-send transitions shared with C03
    shared = borrow("C03", ["pass_dochan", "pqadd", "del_dochan", "pqrun", "pqfinish"], tier)
    return shared + [
        Obl("sqrt_exact", "sqrt.c", progs=[send], backend="kissat", witness_mode="twin",
            unwind={"squareroot": 17}, timeout=900,
            functions=["qmail-send.c:squareroot"],
            assumes=["0 <= age < 2^32 (full stated domain); datetime_sec is 64-bit"],
            outside=["ages >= 2^32 s (136 years): result saturates, outside the property's domain"],
            claim="squareroot(x)^2 <= x < (squareroot(x)+1)^2 for every x in 0..2^32-1, no signed overflow or bad shift",
            expect_witnesses=["max_age", "zero_age"]),
        Obl("nextretry", "nextretry.c", progs=[Prog("qmail-send.c", nomain=True, cut=["squareroot"])],
            backend="kissat", witness_mode="twin", timeout=1800, grid=[{"CHAN": 0}, {"CHAN": 1}],
            functions=["qmail-send.c:nextretry"],
            cuts=["squareroot -> contract result^2 <= x < (result+1)^2, proved by obligation sqrt_exact in the same run"],
            assumes=["0 <= birth, now < 2^40; age < 2^32"],
            claim="nextretry(birth,c) > now and == birth + (floor(sqrt(now-birth)) + 10|20)^2 for all birth, now < 2^40, age < 2^32, both channels",
            expect_witnesses=["normal", "birth_in_future", "max_age"]),
        Obl("prioq_step", "prioq.c", repo=["prioq.c"], backend="cadical",
            grid=[{"NN": n, "OP": op} for n in range(0, nmax + 1) for op in (0, 1)],
            unwind_default=lambda p: p["NN"] + 4, timeout=900,
            functions=["prioq.c:prioq_insert", "prioq.c:prioq_delmin", "prioq.c:prioq_min", "prioq.c:prioq_readyplus"],
            assumes=["pre-state is any array of NN elements in heap order (64-bit dt, 64-bit id fully symbolic), capacity > length (growth arithmetic is a C20 lemma)"],
            outside=["heaps larger than %d elements" % nmax],
            claim="from any valid heap of NN elements one insert or delmin preserves heap order and the multiset, and min is earliest-due",
            ),
    ] + [load_plan("C16").signals_obligation(tier)]   # an ALRM makes everything due at once: the main loop never forgets an ALRM
