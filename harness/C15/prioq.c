/* C15 - prioq.c: one insert / delmin / min from ANY valid heap of NN elements
 * (inductive step: covers insertion/deletion sequences of any length up to that size).
 * Encoded from /repo: prioq.c prioq_insert, prioq_delmin, prioq_min, prioq_readyplus. */
#include "verif.h"
#include "prioq.h"

#ifndef NN
#define NN 3
#endif
#define CAP (NN + 2)

struct prioq_elt heap[CAP];      /* arbitrary pre-state */
struct prioq_elt newe;           /* element inserted */
struct prioq_elt probe;          /* arbitrary element whose multiplicity is tracked */
#ifndef OP
#define OP 0                     /* 0 insert, 1 delmin: one query each */
#endif

static prioq pq;

void sym_inputs(void)
{
#ifdef REPLAY
#include "replay_inputs.inc"
#else
  SYM_ARR(heap); SYM(newe); SYM(probe);
#endif
}

static int is_heap(unsigned int n)
{
  unsigned int i;
  for (i = 1; i < CAP; ++i) { if (i >= n) break; if (heap[(i - 1) / 2].dt > heap[i].dt) return 0; }
  return 1;
}

static unsigned int count(unsigned int n)
{
  unsigned int i, k = 0;
  for (i = 0; i < CAP; ++i) { if (i >= n) break; if (heap[i].dt == probe.dt && heap[i].id == probe.id) ++k; }
  return k;
}

void vmain(void)
{
  unsigned int before, after, i;
  struct prioq_elt m, oldmin;
  sym_inputs();
  pq.p = heap; pq.len = NN; pq.a = CAP;
  ASSUME(is_heap(NN));
  before = count(NN);
  oldmin = heap[0];
#if OP == 0
  {
    CHECK(prioq_insert(&pq, &newe) == 1, "insert succeeds without growth when a > len");
    CHECK(pq.p == heap && pq.len == NN + 1, "insert: one more element, same storage");
    CHECK(is_heap(NN + 1), "C15: heap order holds after insert");
    after = count(NN + 1);
    CHECK(after == before + ((newe.dt == probe.dt && newe.id == probe.id) ? 1 : 0),
          "C15: insert adds exactly the new element (multiset preserved)");
    CHECK(prioq_min(&pq, &m) == 1, "min exists after insert");
    for (i = 0; i < CAP; ++i) { if (i >= NN + 1) break; CHECK(m.dt <= heap[i].dt, "C15: min is earliest-due"); }
    WITNESS("insert");
  }
#else
  {
    prioq_delmin(&pq);
#if NN == 0
    CHECK(pq.len == 0, "delmin on empty heap is a no-op");
    CHECK(prioq_min(&pq, &m) == 0, "min of empty heap reports empty");
#else
    CHECK(pq.len == NN - 1, "delmin removes one element");
    CHECK(is_heap(NN - 1), "C15: heap order holds after delmin");
    after = count(NN - 1);
    CHECK(after + ((oldmin.dt == probe.dt && oldmin.id == probe.id) ? 1 : 0) == before,
          "C15: delmin removes exactly the old root (multiset preserved)");
    for (i = 0; i < CAP; ++i) { if (i + 1 >= NN) break; CHECK(oldmin.dt <= heap[i].dt, "C15: removed element was earliest-due"); }
#endif
    WITNESS("delmin");
  }
#endif
}
