# C02 - every queue entry is always in a documented state.  Schedules of whole programs are not explored
# (DESIGN.md 4 C02): the claim is decided per program step.  Each program's steps on the files of one message
# are checked against the documented order, from arbitrary pre-states (daemon) or over all runs with every
# crash instant and failure (injector, cleaner).  Obligations are shared with C01/C03/C18/C16 harness files and
# decided again here so that this check stands on its own.
import importlib.util, os
from vlib import VERIF

def _plan(pid):
    spec = importlib.util.spec_from_file_location("plan_" + pid, os.path.join(VERIF, "harness", pid, "plan.py"))
    m = importlib.util.module_from_spec(spec); spec.loader.exec_module(m); return m

def _borrow(pid, names, tier):
    out = []
    for o in _plan(pid).obligations(tier):
        if o.name in names:
            if not o.harness.startswith("../"):
                o.harness = "../%s/%s" % (pid, o.harness)
            out.append(o)
    return out

def obligations(tier):
    obls = []
    # injector: S1 (mess) -> S2 (mess+intd) -> S3 (mess+intd+todo), name = inode, crash/failed runs leave only S1/S2 leftovers
    obls += _borrow("C01", ["queue_order", "queue_content"], tier)
    # daemon: preprocessing order (S3 -> S4/S5), end of life (S5 -> removal order), restart, garbage collection after 36 h
    obls += _borrow("C03", ["todo_do", "messdone", "job_close", "pqadd", "cleanup_do", "readsubdir_scan", "pqstart_all"], tier)
    # cleaner: removes intd then mess / intd then todo, of the requested number only
    obls += _borrow("C18", ["clean_requests"], tier)
    # second daemon instance refuses to touch the queue
    obls.append(_plan("C16").startup_obligation())
    # ... and the running daemon never gives the mutex up, also not while draining after TERM (checked in the main-loop harness)
    from vlib import borrow
    obls += borrow("C16", ["select_timeout"], tier)
    # bounce/N disappears before info/N: injectbounce() reports success only after bounce/N was really removed (shared with C14)
    obls += borrow("C14", ["injectbounce"], tier)
    return obls
