/* C13 - qmail-local.c main(): Delivered-To and Return-Path lines built from hostile
 * envelope addresses.
 *
 * main() is run from its first statement with a real argument vector: local part (LL
 * bytes) and domain (HL bytes) are symbolic, every byte value except NUL.  The run is
 * stopped in the env_put2("RPLINE", ...) stub, right after both lines exist.
 * checkhome() and bouncexf() are cut (own obligations).  quote2() is cut and
 * over-approximated: the stub checks that it is applied to the envelope sender and
 * returns ANY string of QL bytes (every byte value, newlines included), which covers
 * whatever the real quote.c produces for any sender; with the real quote2 and a symbolic
 * sender of 1..3 bytes the query does not close (no verdict in 600 s: the quoted length
 * is symbolic and every later stralloc copy lands at a symbolic offset).
 *
 * Reference (qmail-local(8), property C13 "hostile envelope addresses cannot inject
 * additional header lines"):
 *   dtline = "Delivered-To: " local "@" domain "\n"  with every newline inside replaced
 *            by '_';
 *   rpline = "Return-Path: <" quote2(sender) ">\n"    likewise (RFC 822 correctness of
 *            the quoting is not a C13 matter, that it is applied to the sender is);
 *   each is exactly one line: the only newline is the last byte.
 */
#include "verif.h"
#include <unistd.h>
#include <sys/stat.h>
#define C13_OWN_ENV_PUT2
#include "c13_common.h"
#include "quote.h"
void checkhome(void);                 /* cut */
void bouncexf(void);
#include "gen_qmail-local.c"

#ifndef QL
#define QL 3
#endif
#define QA (QL ? QL : 1)
#ifndef LL
#define LL 2
#endif
#ifndef HL
#define HL 2
#endif
#define RPMAX (14 + QL + 2 + 1)

static char SENDER[] = "s r@h";
char qout[QA], local_in[LL + 1], host_in[HL + 1];

void sym_inputs(void)
{
#ifdef REPLAY
#include "replay_inputs.inc"
#else
  SYM_ARR(qout); SYM_ARR(local_in); SYM_ARR(host_in);
#endif
}

static int dt_seen, quoted;
static char errbuf_[16];
static substdio sserr_ = SUBSTDIO_FDBUF(write, 2, errbuf_, sizeof errbuf_);
substdio *subfderr = &sserr_;
int ideal_getc(substdio *s) { return -1; }
int ideal_putc(substdio *s, unsigned char c) { return 0; }
int ideal_flush(substdio *s) { return 0; }
mode_t vf_umask(mode_t m) { return 022; }
int vf_chdir(const char *d) { return 0; }
time_t vf_time(time_t *t) { return 820458334; }
void checkhome(void) {}
void bouncexf(void) {}

int quote2(stralloc *sa, char *s)
{
  CHECK(s == SENDER, "C13: quote2 is applied to the envelope sender");
  quoted = 1;
  return stralloc_copyb(sa, qout, QL);
}

static char fix(char c) { return c == '\n' ? '_' : c; }

int env_put2(char *name, char *val)
{
  unsigned int i, n;
  ++nenv;
  if (c13_streq(name, "DTLINE", 8)) {
    static const char pre[] = "Delivered-To: ";
    dt_seen = 1;
    CHECK(dtline.len == 14 + LL + 1 + HL + 1, "C13: Delivered-To line is 'Delivered-To: ' local '@' domain newline");
    if (dtline.len == 14 + LL + 1 + HL + 1) {
      for (i = 0; i < 14; ++i) CHECK(dtline.s[i] == pre[i], "C13: Delivered-To line begins with the field name");
      for (i = 0; i < LL; ++i) CHECK(dtline.s[14 + i] == fix(local_in[i]), "C13: local part recorded, newline replaced by '_'");
      CHECK(dtline.s[14 + LL] == '@', "C13: '@' between local part and domain");
      for (i = 0; i < HL; ++i) CHECK(dtline.s[14 + LL + 1 + i] == fix(host_in[i]), "C13: domain recorded, newline replaced by '_'");
      CHECK(dtline.s[dtline.len - 1] == '\n', "C13: Delivered-To line ends with a newline");
      n = 0;
      for (i = 0; i < 14 + LL + 1 + HL + 1; ++i) if (dtline.s[i] == '\n') ++n;
      CHECK(n == 1, "C13: the recipient address cannot inject a header line (one newline in Delivered-To)");
    }
    if (LL >= 1 && local_in[0] == '\n') WITNESS("newline_in_local");
    if (HL >= 1 && host_in[HL - 1] == '\n') WITNESS("newline_in_domain");
  }
  if (c13_streq(name, "RPLINE", 8)) {
    static const char pre[] = "Return-Path: <";
    CHECK(dt_seen, "Delivered-To line is built first");
    CHECK(quoted, "C13: the sender is quoted before it is recorded");
    CHECK(rpline.len == 14 + QL + 2, "C13: Return-Path line is 'Return-Path: <' quoted sender '>' newline");
    if (rpline.len == 14 + QL + 2) {
      for (i = 0; i < 14; ++i) CHECK(rpline.s[i] == pre[i], "C13: Return-Path line begins with the field name");
      for (i = 0; i < QL; ++i) CHECK(rpline.s[14 + i] == fix(qout[i]), "C13: sender recorded in quoted form, newline replaced by '_'");
      CHECK(rpline.s[rpline.len - 2] == '>' && rpline.s[rpline.len - 1] == '\n', "C13: Return-Path line ends with '>' newline");
      n = 0;
      for (i = 0; i < RPMAX; ++i) { if (i >= rpline.len) break; if (rpline.s[i] == '\n') ++n; }
      CHECK(n == 1, "C13: the sender address cannot inject a header line (one newline in Return-Path)");
    }
    if (QL >= 1 && qout[0] == '\n') WITNESS("newline_in_sender");
    if (QL >= 2 && qout[0] == '"' && qout[1] == '\n') WITNESS("quoted_newline_in_sender");
    WITNESS("lines_built");
    PATH_END();
  }
  return 1;
}

void vf__exit(int status)
{
  CHECK(0, "main() does not give up before the lines are built with these arguments");
  PATH_END();
#ifdef VERIF_CBMC
  __CPROVER_assume(0);
#endif
}

void vmain(void)
{
  static char *argv[10];
  unsigned int i;
  sym_inputs();
  for (i = 0; i < LL; ++i) ASSUME(local_in[i] != 0);
  for (i = 0; i < HL; ++i) ASSUME(host_in[i] != 0);
  local_in[LL] = 0; host_in[HL] = 0;        /* terminators visible to symbolic execution */
  c13_reg(local_in, LL); c13_reg(host_in, HL);
  argv[0] = "qmail-local"; argv[1] = "u"; argv[2] = "/h"; argv[3] = local_in; argv[4] = "-"; argv[5] = "x";
  argv[6] = host_in; argv[7] = SENDER; argv[8] = "./Mailbox"; argv[9] = 0;
  local_main(9, argv);
  CHECK(0, "main() does not return");
}
