/* C13 - qmail-local.c bouncexf(): loop detection by the Delivered-To line.
 *
 * Encoded from /repo: qmail-local.c (text before main: bouncexf, temp_read,
 * temp_rewind); getln = ideal stream (layer 1), stralloc_pend.c.
 * Message of exactly H symbolic bytes (every byte value), dtline a short concrete line,
 * optional read error at a symbolic position.
 *
 * Reference (qmail-local(8)): "If exactly the same Delivered-To: local@domain already
 * appears in the header, qmail-local bounces the message."  The header is the lines
 * before the first empty line.  Complete header line identical to dtline  <=>  exit 100.
 * The documents do not say whether a final header line that lacks its newline (message
 * ends inside the header) counts; both answers are accepted for that line.
 */
#include "verif.h"
#include <unistd.h>
#include "c13_common.h"
#include "gen_qmail-local.c"

#ifndef H
#define H 6
#endif
#define HA (H ? H : 1)

static char DT[] = "D:r\n";
#define DTLEN (sizeof DT - 1)

unsigned char in[HA];
unsigned int read_err;           /* read error instead of byte read_err (> H: none) */
unsigned char rewind_fails;

void sym_inputs(void)
{
#ifdef REPLAY
#include "replay_inputs.inc"
#else
  SYM_FEED();
  SYM_ARR(in); SYM(read_err); SYM(rewind_fails);
#endif
}

static unsigned int inpos;
static int rewound, err_hit;

int ideal_getc(substdio *s)
{
  CHECK(s->fd == 0 && rewound, "the message is read from descriptor 0 after a rewind");
  if (inpos == read_err) { err_hit = 1; errno = EIO; return -2; }
  if (inpos >= H) return -1;
  return in[inpos++];
}
int ideal_putc(substdio *s, unsigned char c) { return 0; }
int ideal_flush(substdio *s) { return 0; }

off_t vf_lseek(int fd, off_t off, int whence)
{
  CHECK(fd == 0 && off == 0 && whence == SEEK_SET, "descriptor 0 is rewound");
  if (rewind_fails) { errno = ESPIPE; return -1; }
  rewound = 1; inpos = 0;
  return 0;
}

/* reference header scan: 1 a complete header line equals dtline, 2 only the unterminated
 * final header line equals dtline without its newline, 0 neither */
static int ref_loop(void)
{
  unsigned int start = 0, i, k;
  for (i = 0; i < H; ++i) {
    if (in[i] == '\n') {
      unsigned int len = i + 1 - start;
      if (len == 1) return 0;                            /* empty line: end of header */
      if (len == DTLEN) {
        int same = 1;
        for (k = 0; k < DTLEN; ++k) if (in[start + k] != (unsigned char) DT[k]) same = 0;
        if (same) return 1;
      }
      start = i + 1;
    }
  }
  if (H - start == DTLEN - 1) {
    int same = 1;
    for (k = 0; k < DTLEN - 1; ++k) if (in[start + k] != (unsigned char) DT[k]) same = 0;
    if (same) return 2;
  }
  return 0;
}

void vf__exit(int status)
{
  int r = ref_loop();
  if (rewind_fails) { CHECK(status == 111, "unseekable message: temporary failure"); WITNESS("rewind_failed"); }
  else if (err_hit) {
    /* the error may come after the looping line was already seen */
    CHECK(status == 111 || (status == 100 && r == 1), "read error: temporary failure");
    if (status == 111) WITNESS("read_error");
  } else {
    CHECK(status == 100, "C13: bouncexf gives up only to bounce a looping message (100)");
    CHECK(r == 1 || r == 2, "C13: a message is bounced as looping only if a header line is exactly the Delivered-To line");
    if (r == 1) WITNESS("loop_detected");
  }
  PATH_END();
#ifdef VERIF_CBMC
  __CPROVER_assume(0);
#endif
}

void vmain(void)
{
  int r;
  sym_inputs();
  dtline.s = DT; dtline.len = DTLEN; dtline.a = sizeof DT;
  bouncexf();
  r = ref_loop();
  CHECK(!rewind_fails && !err_hit, "a failed rewind or read is not ignored");
  CHECK(r != 1, "C13: a message that already carries this Delivered-To line in its header is bounced");
  if (H >= DTLEN + 1 && in[0] == '\n' && in[1] == 'D' && in[DTLEN] == '\n' && ref_loop() == 0 && in[2] == ':' && in[3] == 'r') WITNESS("same_line_in_body_ignored");
  if (H >= DTLEN + 1 && in[0] == 'D' && in[1] == ':' && in[2] == 'r' && in[3] != '\n') WITNESS("longer_line_not_a_loop");
  WITNESS("no_loop");
}
