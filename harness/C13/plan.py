# C13 - delivery instructions (.qmail) are interpreted as documented and loops are cut.
#
# kills (hand-made mutants of /repo in a scratch worktree; each was reported as VIOLATION with a
# native replay that reproduced, rc 1):
#   qmesearch        : '.' no longer replaced by ':' in safeext; sticky bit ignored in checkhome();
#                      -default loop run from the shortest prefix; .qmail-default tried before the exact
#                      name; auto_patrn test on the .qmail file removed from qmeexists(); auto_patrn test on the
#                      home directory removed from checkhome(); qmeox() building ".qmail-extowner" (OWNER point)
#   envelope_lines   : newline loop over rpline removed
#   dotqmail_loop    : `if (flag99) break` disabled; x-bit refusal of program lines removed;
#                      forward lines forwarded at once instead of collected
#   mailprogram_codes: `case 99` turned into _exit(111)
#   bouncexf         : comparison of dtline.len-1 bytes with `messline.len >= dtline.len` (prefix only)
#   mailforward      : rpline put in front of dtline in the forwarded copy
from vlib import Obl, Prog

MAIN_UNITS = ["sgetopt.c", "subgetopt.c", "quote.c", "myctime.c", "datetime.c", "fmt_str.c", "fmt_uint.c", "fmt_uint0.c",
              "fmt_ulong.c", "stralloc_cat.c", "stralloc_catb.c", "stralloc_cats.c", "stralloc_copy.c", "stralloc_opyb.c",
              "stralloc_opys.c", "stralloc_pend.c", "byte_copy.c", "byte_rchr.c", "str_chr.c", "str_rchr.c", "case_lowerb.c",
              "substdio.c", "open_read.c", "auto_patrn.c", "error_temp.c", "error_str.c"]
MAIN_SYS = ["_exit", "umask", "chdir", "time", "strlen", "stat", "open", "fstat", "close"]
MAIN_FUNCS = ["sgetopt.c", "subgetopt.c", "quote.c:quote2/quote/quote_need/doit", "myctime.c:myctime", "datetime.c:datetime_tai",
              "fmt_*.c", "stralloc_*.c", "case_lowerb.c", "byte_rchr.c", "str_chr.c", "str_rchr.c"]
COMMON_STUBS = ["strerr_warn/strerr_die: the text is dropped, strerr_die(e,...) = _exit(e)",
                "_exit: records the status, runs the end-of-run assertions, ends the path",
                "env_init/env_put2: observing stubs (env.c allocates with symbolic sizes)",
                "strlen: concrete answer for the registered symbolic argument strings (re-checked), scan for all others",
                "umask, chdir, sig_pipeignore: no-ops; time: concrete",
                "stralloc_ready/readyplus: arena"]
SMALL = dict(repo=["stralloc_pend.c", "error_str.c", "substdio.c"], lib=["ideal_substdio.c", "ideal_getln.c", "arena_stralloc.c"],
             defines={"ARENA_CAP": 16, "ARENA_SLOTS": 2}, sysrename=["_exit", "lseek", "strlen"])


def w_search(p):
    el, d, n = p["EL"], p["DASHLEN"], p.get("NFLAG", 0)
    w = ["writable_home_deferred", "writable_qmail_deferred", "exact_name_used", "executable_qmail"]
    if not n:
        w.append("sticky_home_deferred")
    if d:
        w.append("no_file_bounce")
    else:
        w.append("dry_run_default" if n else "no_file_default_delivery")
    if p.get("OWNER"):
        w += ["verp_sender", "owner_sender", "sender_kept"]
    if el >= 1:
        w += ["longest_default_used", "shortest_default_used", "dot_in_ext", "upper_case_in_ext", "slash_in_ext"]
    return w


def obligations(tier):
    quick = tier == "quick"
    els = [0, 1, 2, 3, 4, 5] if quick else [0, 1, 2, 3, 4, 5, 6]
    return [
        Obl("qmesearch", "search.c",
            progs=[Prog("qmail-local.c", main_as="local_main", cut=["bouncexf", "mailfile", "maildir", "mailprogram", "mailforward"],
                        # main()'s local flag is made visible to the harness; if a tree keeps the flag at file scope instead
                        # (same name) there is nothing to edit and the harness's own tentative definition merges with it
                        sub=[(r"^ int flagforwardonly;$", " extern int flagforwardonly;", (0, 1))])],
            repo=MAIN_UNITS, lib=["ideal_substdio.c", "arena_stralloc.c"],
            defines={"ARENA_CAP": 72, "ARENA_SLOTS": 12}, sysrename=MAIN_SYS,
            grid=[{"EL": n, "DASHLEN": 1} for n in els] + [{"EL": 0, "DASHLEN": 0}, {"EL": 3, "DASHLEN": 1, "NFLAG": 1},
                                                           {"EL": 0, "DASHLEN": 0, "NFLAG": 1}, {"EL": 2, "DASHLEN": 1, "OWNER": 1}],
            unwind=lambda p: {"str_chr": p["EL"] // 4 + 2, "fmt_ulong": 6},
            unwind_default=lambda p: 64, backend="minisat", timeout=900 if quick else 3400,
            functions=["qmail-local.c:main (first statement .. slurpclose)", "qmail-local.c:checkhome", "qmail-local.c:qmesearch",
                       "qmail-local.c:qmeexists", "qmail-local.c:qmeox", "open_read.c:open_read", "error_temp.c:error_temp"] + MAIN_FUNCS,
            cuts=["bouncexf -> no-op (obligation bouncexf)",
                  "slurpclose -> end of path: checks the descriptor and the forward-only flag (main()'s local flagforwardonly is made "
                  "extern in the generated copy); what main() does with the contents is obligation dotqmail_loop",
                  "mailfile -> observing stub (defaultdelivery when no file exists); maildir/mailprogram/mailforward -> unreachable"],
            stubs=COMMON_STUBS + ["stat/open/fstat/close: answer from a table of 3 files with symbolic names and permission bits, keyed by "
                                  "the path string; home directory with symbolic st_mode"],
            assumes=["ext = EL symbolic non-NUL bytes (every value: upper case, dots, slashes, dashes), dash = '-' (or '' with empty ext); "
                     "up to 3 existing files, names any strings, all regular; empty sender (OWNER=1: sender s@h); flagdoit, or -n with NFLAG=1"],
            outside=["extensions longer than the grid", "non-regular files called .qmail-*", "dash = '' together with a file .qmaildefault "
                     "(documents silent)", "open() failing with anything but ENOENT", "symbolic links below the home directory"],
            claim="home directory with an auto_patrn bit or (delivering) sticky => 111 before any .qmail file is looked at; the "
                  "control file is the first existing one of .qmail<dash><ext>, .qmail<dash><prefix>default for each dash-terminated "
                  "prefix from the longest to the empty one, ext lower-cased and '.' -> ':'; no other name is opened; every name "
                  "starts with .qmail and has no further dot (cannot climb out of the home directory; '/' in ext only descends); "
                  "writable control file => 111 unread; x bit => forward-only flag; none => 100 (dash non-empty) or defaultdelivery; "
                  "OWNER=1: -owner / -owner-default looked up by name, NEWSENDER as documented",
            expect_witnesses=w_search),
        Obl("envelope_lines", "rpdt.c",
            progs=[Prog("qmail-local.c", main_as="local_main", cut=["checkhome", "bouncexf"])],
            repo=[u for u in MAIN_UNITS if u != "quote.c"], lib=["ideal_substdio.c", "arena_stralloc.c"],
            defines={"ARENA_CAP": 72, "ARENA_SLOTS": 12}, sysrename=["_exit", "umask", "chdir", "time", "strlen"],
            grid=[{"QL": a, "LL": b, "HL": b} for (a, b) in (((0, 0), (1, 1), (2, 2), (4, 3), (8, 4)) if quick else
                                                              ((0, 0), (1, 1), (2, 2), (4, 3), (8, 4), (12, 6), (16, 8)))],
            unwind_default=lambda p: 40 + p["QL"], backend="minisat", timeout=600,
            functions=["qmail-local.c:main (first statement .. env_put2 RPLINE)"] + MAIN_FUNCS[:2] + MAIN_FUNCS[4:],
            cuts=["checkhome, bouncexf -> no-ops (obligations qmesearch, bouncexf)",
                  "quote2 -> over-approximation: checks that it is applied to the envelope sender, returns ANY string of QL bytes "
                  "(newlines included); covers every output of the real quote.c; with the real quote2 and a symbolic sender the "
                  "query gave no verdict in 600 s",
                  "env_put2(RPLINE) -> end of path"],
            stubs=COMMON_STUBS,
            assumes=["local part LL and domain HL symbolic non-NUL bytes (every value, newlines included); quoted sender: any QL bytes"],
            outside=["RFC 822 correctness of quote.c (C17)", "addresses longer than the grid"],
            claim="dtline = 'Delivered-To: ' local '@' domain newline and rpline = 'Return-Path: <' quote2(sender) '>' newline with "
                  "every inner newline replaced by '_': each is exactly one line whatever the envelope addresses contain",
            expect_witnesses=lambda p: ["lines_built"] + (["newline_in_local", "newline_in_domain"] if p["LL"] else [])
                + (["newline_in_sender"] if p["QL"] >= 1 else []) + (["quoted_newline_in_sender"] if p["QL"] >= 2 else [])),
        Obl("dotqmail_loop", "loop.c",
            progs=[Prog("qmail-local.c", main_as="local_main",
                        cut=["checkhome", "bouncexf", "mailfile", "maildir", "mailprogram", "mailforward", "count_print"])],
            repo=MAIN_UNITS, lib=["ideal_substdio.c", "arena_stralloc.c"],
            defines={"ARENA_CAP": 48, "ARENA_SLOTS": 12}, sysrename=["_exit", "umask", "chdir", "time", "strlen", "calloc", "stat", "open", "fstat", "close"],
            grid=[{"B": b} for b in (range(1, 10) if quick else range(1, 12))] + [{"B": 5, "NFLAG": 1}],
            unwind=lambda p: {"fmt_ulong": 6},
            unwind_default=lambda p: 40, backend="cadical", timeout=900 if quick else 3400,
            functions=["qmail-local.c:main (whole, instruction loop included)"] + MAIN_FUNCS,
            cuts=["checkhome, bouncexf -> no-ops (obligations qmesearch, bouncexf)",
                  "qmesearch is the real one, over a one-file model (.qmail-x exists, regular, execute bit symbolic)",
                  "slurpclose -> delivers the symbolic body",
                  "mailfile, maildir, mailprogram, mailforward -> observing stubs with symbolic outcome: success, exit 99 (sets "
                  "flag99), _exit(100), _exit(111) (obligations mailprogram_codes, mailforward, C12)",
                  "count_print -> no-op (report only)", "calloc -> fixed table (no allocation with a symbolic size)"],
            stubs=COMMON_STUBS,
            assumes=[".qmail body = exactly B symbolic bytes, every value except NUL, any number of lines; lines whose first byte is "
                     "neither # | & . / nor alphanumeric are excluded, except the literal +list (documents silent on them)",
                     "flagdoit; one grid point with -n"],
            outside=["bodies longer than the grid (3 lines x 3 bytes = 11 bytes: thorough tier)", "-n output text", "NUL bytes in .qmail",
                     "the cross product with the file search (composed through the cut of qmesearch)"],
            claim="for every body: lines split at newlines, trailing blanks dropped, blank first line => 111, comments and blank "
                  "lines skipped, program / mbox / maildir lines executed in order with the text of their line, a failing "
                  "instruction ends the run with its status, forward addresses collected and mailforward() called exactly once "
                  "after all other lines succeeded with exactly those addresses in order, exit 99 stops the scan (earlier forward "
                  "lines honoured, later ones not), x bit or +list => program/file line refused with 111 when reached",
            expect_witnesses=lambda p: ["dry_run_done", "dry_run_refused"] if p.get("NFLAG") else
                ["all_done", "comments_only", "blank_first_line", "executable_refused",
                 "delivery_failure_prevents_forwarding", "forward_failure"]
                + (["two_forwards", "mbox_and_forward", "program_then_maildir", "forward_before_99_honoured",
                    "forward_after_99_ignored", "delivery_after_99_ignored"] if p["B"] >= 3 else [])
                + (["pluslist_refused"] if p["B"] >= 7 else [])),
        Obl("mailprogram_codes", "prog.c", progs=[Prog("qmail-local.c", nomain=True)],
            repo=["wait_pid.c", "error_str.c"], lib=["ideal_substdio.c"],
            sysrename=["_exit", "lseek", "fork", "execv", "waitpid", "strlen"],
            unwind_default=24, backend="minisat", timeout=300,
            functions=["qmail-local.c:mailprogram", "qmail-local.c:temp_rewind/temp_fork/temp_childcrashed", "wait_pid.c:wait_pid",
                       "wait.h:wait_crashed/wait_exitcode"],
            stubs=COMMON_STUBS[:2] + ["lseek/fork/execv/waitpid: fork returns -1, 0 or a pid; execv records its arguments and ends the "
                                      "path (or fails); waitpid may be interrupted once and reports any status 0..65535"],
            assumes=["wait status any value 0..65535 (all 256 exit codes, all signal numbers)"],
            outside=["what /bin/sh does with the command"],
            claim="child: sh -c <rest of the line>, message rewound first; exit code 0 -> return, 99 -> return with flag99 set, "
                  "100/64/65/70/76/77/78/112 -> _exit(100), every other code -> _exit(111), signal -> not a success; fork or "
                  "rewind failure -> 111"),
        Obl("bouncexf", "bounce.c", progs=[Prog("qmail-local.c", nomain=True)],
            grid=[{"H": h} for h in (range(0, 9) if quick else range(0, 13))],
            unwind_default=lambda p: p["H"] + 6, backend="minisat", timeout=600,
            functions=["qmail-local.c:bouncexf", "qmail-local.c:temp_read/temp_rewind", "stralloc_pend.c:stralloc_append"],
            stubs=COMMON_STUBS[:2] + ["getln: ideal stream over the symbolic message; lseek: rewind, may fail"],
            assumes=["message of exactly H bytes, every byte value; dtline = 'D:r' newline; read error at a symbolic position or none"],
            outside=["messages (headers) longer than the grid"],
            claim="_exit(100) iff a complete header line (before the first empty line) is byte-identical to dtline; an unterminated "
                  "final header line is accepted either way (documents silent); read/rewind failure -> 111",
            expect_witnesses=lambda p: ["no_loop", "rewind_failed", "read_error"] + (["loop_detected"] if p["H"] >= 4 else [])
                + (["same_line_in_body_ignored", "longer_line_not_a_loop"] if p["H"] >= 5 else []), **SMALL),
        Obl("mailforward", "forward.c", progs=[Prog("qmail-local.c", nomain=True)],
            grid=[{"N": n} for n in ((0, 1, 3) if quick else (0, 1, 2, 3, 5, 8))],
            unwind_default=lambda p: p["N"] + 10, backend="minisat", timeout=600,
            functions=["qmail-local.c:mailforward", "qmail-local.c:temp_rewind/temp_fork"],
            cuts=["qmail_open/put/from/to/fail/close/qp -> observing stubs (qmail.c: C01/C14)"],
            stubs=COMMON_STUBS[:2] + ["getln: ideal stream over the symbolic message; lseek: rewind, may fail"],
            assumes=["message of exactly N bytes, every byte value; two recipients; qmail_close answers '', 'D...' or 'Z...'"],
            claim="qmail-queue receives dtline followed by exactly the message (no Return-Path line), sender = NEWSENDER, every "
                  "recipient once in order, then close; '' -> return, 'D' -> 100, other -> 111; a read error marks the message "
                  "failed before close",
            expect_witnesses=lambda p: ["forwarded", "rewind_failed", "open_failed", "read_error", "refused_permanently",
                                        "refused_temporarily"] + (["forwarded_partial_last_line"] if p["N"] else []), **SMALL),
    ]
