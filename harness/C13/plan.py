# kills (hand-made mutants of /repo that this check reports): see bottom of file
from vlib import Obl, Prog

MAIN_UNITS = ["sgetopt.c", "subgetopt.c", "quote.c", "myctime.c", "datetime.c", "fmt_str.c", "fmt_uint.c", "fmt_uint0.c",
              "fmt_ulong.c", "stralloc_cat.c", "stralloc_catb.c", "stralloc_cats.c", "stralloc_copy.c", "stralloc_opyb.c",
              "stralloc_opys.c", "stralloc_pend.c", "byte_copy.c", "byte_rchr.c", "str_chr.c", "str_rchr.c", "case_lowerb.c",
              "substdio.c", "open_read.c", "auto_patrn.c", "error_temp.c", "error_str.c"]
MAIN_SYS = ["_exit", "umask", "chdir", "time", "strlen", "stat", "open", "fstat", "close"]


def w_search(p):
    el, d, n = p["EL"], p["DASHLEN"], p.get("NFLAG", 0)
    w = ["writable_home_deferred", "writable_qmail_deferred", "exact_name_used", "executable_qmail"]
    if not n:
        w.append("sticky_home_deferred")
    if d:
        w.append("no_file_bounce")
    else:
        w.append("dry_run_default" if n else "no_file_default_delivery")
    if el >= 1:
        w += ["longest_default_used", "shortest_default_used", "dot_in_ext", "upper_case_in_ext", "slash_in_ext"]
    return w


def obligations(tier):
    els = [0, 1, 2, 3, 4, 5]
    return [
        Obl("qmesearch", "search.c",
            progs=[Prog("qmail-local.c", main_as="local_main", cut=["bouncexf", "mailfile", "maildir", "mailprogram", "mailforward"],
                        sub=[(r"^ int flagforwardonly;$", " extern int flagforwardonly;", 1)])],
            repo=MAIN_UNITS, lib=["ideal_substdio.c", "arena_stralloc.c"],
            defines={"ARENA_CAP": 72, "ARENA_SLOTS": 12}, sysrename=MAIN_SYS,
            grid=[{"EL": n, "DASHLEN": 1} for n in els] + [{"EL": 0, "DASHLEN": 0}, {"EL": 3, "DASHLEN": 1, "NFLAG": 1},
                                                                  {"EL": 0, "DASHLEN": 0, "NFLAG": 1}],
            unwind=lambda p: {"str_chr": p["EL"] // 4 + 2, "fmt_ulong": 6},
            unwind_default=lambda p: 64, backend="minisat", timeout=600,
            claim="qmesearch",
            expect_witnesses=w_search,
            ),
        Obl("envelope_lines", "rpdt.c",
            progs=[Prog("qmail-local.c", main_as="local_main", cut=["checkhome", "bouncexf"])],
            repo=[u for u in MAIN_UNITS if u != "quote.c"], lib=["ideal_substdio.c", "arena_stralloc.c"],
            defines={"ARENA_CAP": 72, "ARENA_SLOTS": 12}, sysrename=["_exit", "umask", "chdir", "time", "strlen"],
            grid=[{"QL": a, "LL": b, "HL": b} for (a, b) in ((0, 0), (1, 1), (2, 2), (4, 3), (8, 4))],
            unwind_default=lambda p: 40, backend="minisat", timeout=600,
            claim="rpline dtline",
            expect_witnesses=lambda p: ["lines_built"] + (["newline_in_local", "newline_in_domain"] if p["LL"] else [])
                + (["newline_in_sender"] if p["QL"] >= 1 else []) + (["quoted_newline_in_sender"] if p["QL"] >= 2 else []),
            ),
        Obl("dotqmail_loop", "loop.c",
            progs=[Prog("qmail-local.c", main_as="local_main",
                        cut=["checkhome", "bouncexf", "qmesearch", "mailfile", "maildir", "mailprogram", "mailforward", "count_print"])],
            repo=MAIN_UNITS, lib=["ideal_substdio.c", "arena_stralloc.c"],
            defines={"ARENA_CAP": 48, "ARENA_SLOTS": 12}, sysrename=["_exit", "umask", "chdir", "time", "strlen", "calloc"],
            grid=[{"B": b} for b in (1, 2, 3, 4, 5, 6, 7, 8)],
            unwind=lambda p: {"fmt_ulong": 6},
            unwind_default=lambda p: 40, backend="minisat", timeout=900,
            claim="loop",
            expect_witnesses=lambda p: ["all_done", "comments_only", "blank_first_line", "executable_refused",
                                        "delivery_failure_prevents_forwarding", "forward_failure"]
                + (["two_forwards", "mbox_and_forward", "program_then_maildir", "forward_before_99_honoured",
                    "forward_after_99_ignored", "delivery_after_99_ignored"] if p["B"] >= 3 else [])
                + (["pluslist_refused"] if p["B"] >= 7 else []),
            ),
        Obl("mailprogram_codes", "prog.c", progs=[Prog("qmail-local.c", nomain=True)],
            repo=["wait_pid.c", "error_str.c"], lib=["ideal_substdio.c"],
            sysrename=["_exit", "lseek", "fork", "execv", "waitpid", "strlen"],
            unwind_default=24, backend="minisat", timeout=300,
            claim="mailprogram",
            ),
        Obl("bouncexf", "bounce.c", progs=[Prog("qmail-local.c", nomain=True)],
            repo=["stralloc_pend.c", "error_str.c", "substdio.c"], lib=["ideal_substdio.c", "ideal_getln.c", "arena_stralloc.c"],
            defines={"ARENA_CAP": 16, "ARENA_SLOTS": 2},
            sysrename=["_exit", "lseek", "strlen"],
            grid=[{"H": h} for h in (range(0, 9) if tier == "quick" else range(0, 12))],
            unwind_default=lambda p: p["H"] + 6, backend="minisat", timeout=600,
            claim="bouncexf",
            expect_witnesses=lambda p: ["no_loop", "rewind_failed", "read_error"] + (["loop_detected"] if p["H"] >= 4 else [])
                + (["same_line_in_body_ignored", "longer_line_not_a_loop"] if p["H"] >= 5 else []),
            ),
        Obl("mailforward", "forward.c", progs=[Prog("qmail-local.c", nomain=True)],
            repo=["stralloc_pend.c", "error_str.c", "substdio.c"], lib=["ideal_substdio.c", "ideal_getln.c", "arena_stralloc.c"],
            defines={"ARENA_CAP": 16, "ARENA_SLOTS": 2},
            sysrename=["_exit", "lseek", "strlen"],
            grid=[{"N": n} for n in (0, 1, 3)],
            unwind_default=lambda p: p["N"] + 10, backend="minisat", timeout=600,
            claim="mailforward",
            expect_witnesses=lambda p: ["forwarded", "rewind_failed", "open_failed", "read_error", "refused_permanently",
                                        "refused_temporarily"] + (["forwarded_partial_last_line"] if p["N"] else []),
            ),
    ]
