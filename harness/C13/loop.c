/* C13 - qmail-local.c main(): the instruction loop over a symbolic .qmail body.
 *
 * main() is run from its first statement (concrete arguments, empty sender).  Cut and
 * replaced by stubs: checkhome, bouncexf (no-ops, own obligations); the real qmesearch() runs
 * against a one-file model (.qmail-x exists, regular, execute bit symbolic - the search order
 * itself is obligation qmesearch; running the real function here keeps this harness
 * independent of how qmesearch hands the forward-only flag to main()),
 * slurpclose (delivers the body: B symbolic bytes, every value except NUL), mailfile,
 * maildir, mailprogram, mailforward (observing stubs whose outcome comes from a tape:
 * success, exit code 99, hard or soft failure - the outcomes obligation
 * mailprogram_codes / mailforward / C12 prove possible), count_print (report only),
 * calloc (fixed array: no allocation with a symbolic size).
 *
 * Reference interpreter (dot-qmail(5)), run by the harness on its own copy of the body:
 *   lines are separated by newlines (the last one may lack it); trailing spaces and tabs
 *   are ignored; an empty line is ignored, but as first line it is a temporary error;
 *   '#' comment; '|' program = rest of the line; '.' or '/' file name = whole line,
 *   maildir if it ends with '/', mbox otherwise; '&' forward to the rest of the line;
 *   a line beginning with a letter or digit: forward to the whole line.
 *   Instructions are followed in turn; a failing instruction stops everything at once
 *   with its status; forwarding happens once, after all other instructions succeeded;
 *   after a program exit code 99 all following lines are ignored, forward lines before
 *   it are still honoured; in an executable .qmail (forward-only flag) a program, mbox or
 *   maildir line is refused with 111 at the moment it is reached.
 *   "+list" is not in dot-qmail(5); the property record lists it with the x bit, so it
 *   is taken to switch on forward-only from that line on.  Other lines beginning with a
 *   character that is neither # | & . / nor alphanumeric are unspecified by the
 *   documents and excluded by assumption (the code forwards to them or, for '+',
 *   ignores them); so are NUL bytes in the file.
 */
#include "verif.h"
#include <unistd.h>
#include <stdlib.h>
#include <sys/stat.h>
#include "c13_common.h"
void checkhome(void);                 /* cut */
void bouncexf(void);
void mailfile(char *fn);
void maildir(char *fn);
void mailprogram(char *prog);
void mailforward(char **recips);
void count_print(void);
#include "gen_qmail-local.c"

#ifndef B
#define B 6
#endif
#ifndef NFLAG
#define NFLAG 0                   /* 1: qmail-local -n (describe, do not deliver) */
#endif
#define MAXL (B + 1)              /* lines */
#define T_MBOX 1
#define T_MAILDIR 2
#define T_PROG 3

/* ---------------- symbolic inputs */
char body[B];
unsigned char xbit;               /* forward-only flag handed back by qmesearch */
unsigned char outcome[MAXL];      /* per delivery event: 0 ok, 1 exit 99 (programs), 2 hard, 3 soft */
unsigned char fw_outcome;         /* mailforward: 0 ok, 2 hard, 3 soft */

void sym_inputs(void)
{
#ifdef REPLAY
#include "replay_inputs.inc"
#else
  SYM_ARR(body); SYM(xbit); SYM_ARR(outcome); SYM(fw_outcome);
#endif
}

/* ---------------- reference interpretation */
static int ev_type[MAXL];
static unsigned int ev_s[MAXL], ev_e[MAXL], ev_nfw[MAXL];   /* argument = body[s..e), forwards seen before */
static unsigned int nev;
static unsigned int fw_s[MAXL], fw_e[MAXL], nfw;
static int refuse;                /* 1: after nev events the file is refused with 111 */
static int unspecified;

static int alnum(char c) { return (c >= 'a' && c <= 'z') || (c >= 'A' && c <= 'Z') || (c >= '0' && c <= '9'); }

static void ref_interpret(void)
{
  unsigned int s = 0, j, k;
  int fo = xbit != 0, first = 1;
  for (j = 0; j <= B; ++j) {
    char c;
    if (refuse) break;
    if (j == B) { if (s == B) break; }                      /* last line without newline, or nothing left */
    else if (body[j] != '\n') continue;
    k = j;
    { unsigned int q; for (q = 0; q < B; ++q) { if (k > s && (body[k - 1] == ' ' || body[k - 1] == '\t')) --k; else break; } }
    if (k == s) { if (first) refuse = 1; }
    else {
      c = body[s];
      if (c == '#') { }
      else if (c == '|') { if (fo) refuse = 1; else { ev_type[nev] = T_PROG; ev_s[nev] = s + 1; ev_e[nev] = k; ev_nfw[nev] = nfw; ++nev; } }
      else if (c == '.' || c == '/') {
        if (fo) refuse = 1;
        else { ev_type[nev] = body[k - 1] == '/' ? T_MAILDIR : T_MBOX; ev_s[nev] = s; ev_e[nev] = k; ev_nfw[nev] = nfw; ++nev; }
      }
      else if (c == '&') { fw_s[nfw] = s + 1; fw_e[nfw] = k; ++nfw; }
      else if (alnum(c)) { fw_s[nfw] = s; fw_e[nfw] = k; ++nfw; }
      else if (c == '+' && k - s == 5 && body[s + 1] == 'l' && body[s + 2] == 'i' && body[s + 3] == 's' && body[s + 4] == 't') fo = 1;
      else unspecified = 1;
    }
    first = 0;
    s = j + 1;
  }
}

/* ---------------- model state */
static unsigned int ndone;                      /* delivery events so far */
static int stopped99, forward_called, stub_failed, slurped;
static unsigned int fw_expected;
static char *recips_store[MAXL + 2];
static char errbuf_[16];
static substdio sserr_ = SUBSTDIO_FDBUF(write, 2, errbuf_, sizeof errbuf_);
static substdio ssout_ = SUBSTDIO_FDBUF(write, 1, errbuf_, sizeof errbuf_);
substdio *subfderr = &sserr_;
substdio *subfdoutsmall = &ssout_;
int ideal_getc(substdio *s) { return -1; }
int ideal_putc(substdio *s, unsigned char c) { return 0; }
int ideal_flush(substdio *s) { return 0; }
mode_t vf_umask(mode_t m) { return 022; }
int vf_chdir(const char *d) { return 0; }
time_t vf_time(time_t *t) { return 820458334; }
void checkhome(void) {}
/* bouncexf() is cut (obligation bouncexf proves what it does); what the cut relies on is WHEN
 * it runs: a message that already carries its own Delivered-To line must be bounced before
 * ANY instruction is executed, so the check has to come before the first delivery */
static int bouncexf_called;
void bouncexf(void) { bouncexf_called = 1; }
void count_print(void) {}

void *vf_calloc(size_t n, size_t sz)
{
  CHECK(sz == sizeof(char *) && n <= MAXL + 2, "recipient table fits (harness sizing)");
  return recips_store;
}

/* one-file model for the real qmesearch()/qmeexists(): .qmail-x exists, is regular, not writable by others, x bit symbolic */
int vf_open(const char *path, int flags, ...)
{
  CHECK(c13_streq(path, ".qmail-x", 10), "address u-x: the first candidate .qmail-x exists and is the control file");
  return 5;
}
int vf_fstat(int fd, struct stat *st)
{
  CHECK(fd == 5, "fstat of the .qmail descriptor");
  st->st_mode = S_IFREG | 0600 | (xbit ? 0100 : 0);
  return 0;
}
int vf_stat(const char *path, struct stat *st) { CHECK(0, "no stat() in this harness (empty sender: no -owner lookup)"); errno = ENOENT; return -1; }
int vf_close(int fd) { return 0; }

int slurpclose(int fd, stralloc *sa, int bufsize)
{
  CHECK(fd == 5 && !slurped, "the selected control file is read once");
  slurped = 1;
  if (B && !stralloc_catb(sa, body, B)) return -1;
  return 0;
}

/* the argument must be the text body[s..e) of the line, NUL-terminated */
static int same_text(const char *arg, unsigned int s, unsigned int e)
{
  unsigned int t;
  int ok = 1;
  for (t = 0; t < B; ++t) { if (s + t >= e) break; if (arg[t] != body[s + t]) ok = 0; }
  if (arg[e - s] != 0) ok = 0;
  return ok;
}

static void fail_with(int status)
{
  stub_failed = status;
  _exit(status);
}

static void on_event(int type, const char *arg)
{
  unsigned char o;
  CHECK(!NFLAG, "C13: -n delivers nothing");
  CHECK(bouncexf_called, "C13: the Delivered-To loop check runs before any instruction is executed");
  CHECK(!stopped99, "C13: after exit code 99 all further instructions are ignored");
  CHECK(!forward_called, "C13: forwarding comes after all other instructions");
  CHECK(ndone < nev, "C13: no delivery without an instruction line for it");
  if (ndone >= nev) { PATH_END(); return; }
  CHECK(type == ev_type[ndone], "C13: each line is executed by its documented type (program / mbox / maildir), in order");
  CHECK(same_text(arg, ev_s[ndone], ev_e[ndone]), "C13: the instruction's argument is the text of its line (trailing blanks dropped)");
  o = outcome[ndone];
  ++ndone;
  if (o == 2) fail_with(100);
  if (o == 3 || (o == 1 && type != T_PROG)) fail_with(111);
  if (o == 1) { flag99 = 1; stopped99 = 1; fw_expected = ev_nfw[ndone - 1]; }
}

void mailfile(char *fn) { on_event(T_MBOX, fn); }
void maildir(char *fn) { on_event(T_MAILDIR, fn); }
void mailprogram(char *prog) { on_event(T_PROG, prog); }

void mailforward(char **recips)
{
  unsigned int i, nexp = stopped99 ? fw_expected : nfw;
  CHECK(!NFLAG, "C13: -n forwards nothing");
  CHECK(bouncexf_called, "C13: the Delivered-To loop check runs before the message is forwarded");
  CHECK(!forward_called, "C13: forwarding happens once");
  forward_called = 1;
  if (!stopped99) CHECK(!refuse && ndone == nev, "C13: forwarding only after all other instructions succeeded");
  CHECK(nexp > 0, "C13: no forwarding without a forward line");
  for (i = 0; i < MAXL; ++i) {
    if (i >= nexp) break;
    CHECK(recips[i] != 0, "C13: every forward line (before a 99 stop) gets the message");
    if (!recips[i]) { PATH_END(); return; }
    CHECK(same_text(recips[i], fw_s[i], fw_e[i]), "C13: forward address is the text of its line, without the ampersand");
  }
  CHECK(recips[nexp] == 0, "C13: no forward address beyond the forward lines (none after a 99 stop)");
  if (fw_outcome == 2) fail_with(100);
  if (fw_outcome == 3) fail_with(111);
  if (nexp == 2) WITNESS("two_forwards");
  if (stopped99) WITNESS("forward_before_99_honoured");
}

void vf__exit(int status)
{
  unsigned int nexp = stopped99 ? fw_expected : nfw;
  CHECK(slurped, "the control file was read");
#if NFLAG
  /* qmail-local(8): -n prints a description instead of delivering; the refusals stay */
  CHECK(ndone == 0 && !forward_called, "C13: -n delivers nothing");
  if (status == 0) { CHECK(!refuse, "C13: -n: a file that would be refused is not reported as fine"); WITNESS("dry_run_done"); }
  else { CHECK(status == 111 && refuse, "C13: -n: the only failure is the refusal of the file (111)"); WITNESS("dry_run_refused"); }
  PATH_END();
#endif
  if (stub_failed) {
    CHECK(status == stub_failed, "C13: a failing instruction stops qmail-local with its status");
    if (!forward_called) WITNESS("delivery_failure_prevents_forwarding");
    else WITNESS("forward_failure");
  } else if (status == 0) {
    if (!stopped99) CHECK(!refuse && ndone == nev, "C13: success only after every instruction line was followed");
    CHECK(forward_called == (nexp > 0), "C13: collected forward addresses are forwarded before success is reported");
    if (stopped99 && nfw > fw_expected) WITNESS("forward_after_99_ignored");
    if (stopped99 && ndone < nev) WITNESS("delivery_after_99_ignored");
    if (ndone == 2 && ev_type[0] == T_PROG && ev_type[1] == T_MAILDIR) WITNESS("program_then_maildir");
    if (ndone == 1 && ev_type[0] == T_MBOX && nfw == 1) WITNESS("mbox_and_forward");
    if (ndone == 0 && nfw == 0) WITNESS("comments_only");
    WITNESS("all_done");
  } else {
    CHECK(status == 111, "C13: a refused .qmail file is a temporary failure");
    CHECK(refuse && !stopped99 && ndone == nev, "C13: refusal only for a blank first line or a program/file line in a forward-only .qmail, when that line is reached");
    CHECK(!forward_called, "C13: nothing is forwarded from a refused .qmail file");
    if (xbit && nev == 0) WITNESS("executable_refused");
    if (!xbit && B >= 6 && body[0] == '+') WITNESS("pluslist_refused");
    if (B >= 1 && body[0] == '\n') WITNESS("blank_first_line");
  }
  PATH_END();
#ifdef VERIF_CBMC
  __CPROVER_assume(0);
#endif
}

void vmain(void)
{
  static char *argv[11];
  unsigned int i;
  sym_inputs();
  for (i = 0; i < B; ++i) ASSUME(body[i] != 0);
  for (i = 0; i < MAXL; ++i) ASSUME(outcome[i] <= 3);
  ASSUME(fw_outcome == 0 || fw_outcome == 2 || fw_outcome == 3);
  ref_interpret();
  ASSUME(!unspecified);
  { unsigned int a = 0;
    argv[a++] = "qmail-local";
#if NFLAG
    argv[a++] = "-n";
#endif
    argv[a++] = "u"; argv[a++] = "/h"; argv[a++] = "u-x"; argv[a++] = "-"; argv[a++] = "x";
    argv[a++] = "h"; argv[a++] = ""; argv[a++] = "./Mailbox"; argv[a] = 0;
    local_main((int) a, argv); }
  CHECK(0, "main() does not return");
}
