/* C13 - qmail-local.c mailforward(): what is handed to qmail-queue.
 *
 * Encoded from /repo: qmail-local.c (text before main: mailforward, temp_*); getln =
 * ideal stream; qmail_open/put/from/to/fail/close/qp are observing stubs (qmail.c is
 * C01/C14 territory).  Message of exactly N symbolic bytes, two concrete recipients,
 * symbolic result string of qmail_close, optional read error, optional failing open.
 *
 * Reference (dot-qmail(5), qmail-local(8)): the forwarded message is the new
 * Delivered-To line followed by exactly the message (no Return-Path line); envelope
 * sender is the NEWSENDER address (ueo); every collected recipient is named once, in
 * order; success only if qmail-queue accepted; "D..." from qmail_close is permanent
 * (100), anything else temporary (111).
 */
#include "verif.h"
#include <unistd.h>
#include "c13_common.h"
#include "qmail.h"
#include "gen_qmail-local.c"

#ifndef N
#define N 3
#endif
#define NA (N ? N : 1)
static char DT[] = "D:r\n";
#define DTLEN (sizeof DT - 1)
static char RP[] = "R:s\n";
static char UEO[] = "s@h";
static char R0[] = "a@x", R1[] = "b@y";

unsigned char in[NA];
unsigned int read_err;
unsigned char rewind_fails, open_fails, close_kind;      /* close_kind 0 "", 1 "D...", 2 "Z..." */

void sym_inputs(void)
{
#ifdef REPLAY
#include "replay_inputs.inc"
#else
  SYM_ARR(in); SYM(read_err); SYM(rewind_fails); SYM(open_fails); SYM(close_kind);
#endif
}

static unsigned int inpos, nput, nto;
static int rewound, err_hit, opened, failed_marked, from_done, closed, order_bad, content_bad;

int ideal_getc(substdio *s)
{
  CHECK(s->fd == 0 && rewound, "the message is read from descriptor 0 after a rewind");
  if (inpos == read_err) { err_hit = 1; errno = EIO; return -2; }
  if (inpos >= N) return -1;
  return in[inpos++];
}
int ideal_putc(substdio *s, unsigned char c) { return 0; }
int ideal_flush(substdio *s) { return 0; }

off_t vf_lseek(int fd, off_t off, int whence)
{
  CHECK(fd == 0 && off == 0 && whence == SEEK_SET, "descriptor 0 is rewound");
  if (rewind_fails) { errno = ESPIPE; return -1; }
  rewound = 1; inpos = 0;
  return 0;
}

int qmail_open(struct qmail *qq)
{
  CHECK(!opened, "C13: one qmail-queue per delivery");
  if (open_fails) return -1;
  opened = 1;
  return 0;
}
unsigned long qmail_qp(struct qmail *qq) { return 4711; }
void qmail_fail(struct qmail *qq) { failed_marked = 1; }

void qmail_put(struct qmail *qq, char *s, unsigned int len)
{
  unsigned int i;
  if (!opened || from_done || closed) order_bad = 1;
  for (i = 0; i < DTLEN + N + 1; ++i) {
    unsigned char want;
    if (i >= len) break;
    if (nput < DTLEN) want = (unsigned char) DT[nput];
    else if (nput - DTLEN < N) want = in[nput - DTLEN];
    else { content_bad = 1; want = 0; }
    if ((unsigned char) s[i] != want) content_bad = 1;
    ++nput;
  }
}

void qmail_from(struct qmail *qq, char *s)
{
  if (!opened || from_done || closed) order_bad = 1;
  CHECK(c13_streq(s, UEO, 8), "C13: envelope sender of the forwarded copy is the NEWSENDER address");
  from_done = 1;
}

void qmail_to(struct qmail *qq, char *s)
{
  if (!from_done || closed) order_bad = 1;
  CHECK(nto < 2 && s == (nto == 0 ? R0 : R1), "C13: each forward address is named once, in the order of the .qmail file");
  ++nto;
}

char *qmail_close(struct qmail *qq)
{
  if (!from_done || closed) order_bad = 1;
  closed = 1;
  CHECK(nto == 2, "C13: all forward addresses are named before the message is committed");
  CHECK(!order_bad, "C13: qmail-queue is driven in the order message, sender, recipients, close");
  CHECK(!content_bad, "C13: the forwarded message is the Delivered-To line followed by the message, nothing else");
  if (err_hit) { CHECK(failed_marked, "C13: a message that could not be read completely is not committed"); }
  else { CHECK(nput == DTLEN + N, "C13: the whole message is forwarded"); }
  if (err_hit || failed_marked) return "Zqq read error (#4.3.0)";
  return close_kind == 0 ? "" : close_kind == 1 ? "Dpermanent" : "Ztemporary";
}

void vf__exit(int status)
{
  if (rewind_fails) { CHECK(status == 111 && !opened, "unseekable message: temporary failure"); WITNESS("rewind_failed"); }
  else if (open_fails) { CHECK(status == 111, "qmail-queue cannot be started: temporary failure"); WITNESS("open_failed"); }
  else {
    CHECK(closed, "mailforward gives up only after qmail_close");
    if (err_hit) { CHECK(status == 111, "read error: temporary failure"); WITNESS("read_error"); }
    else if (close_kind == 1) { CHECK(status == 100, "C13: permanent refusal by qmail-queue is a hard error"); WITNESS("refused_permanently"); }
    else { CHECK(close_kind == 2 && status == 111, "C13: any other qmail-queue problem is a soft error"); WITNESS("refused_temporarily"); }
  }
  PATH_END();
#ifdef VERIF_CBMC
  __CPROVER_assume(0);
#endif
}

void vmain(void)
{
  static char *recips[3];
  sym_inputs();
  ASSUME(close_kind <= 2);
  dtline.s = DT; dtline.len = DTLEN; dtline.a = sizeof DT;
  rpline.s = RP; rpline.len = sizeof RP - 1; rpline.a = sizeof RP;       /* must NOT show up in the forwarded copy */
  ueo.s = UEO; ueo.len = sizeof UEO; ueo.a = sizeof UEO;
  recips[0] = R0; recips[1] = R1; recips[2] = 0;
  mailforward(recips);
  CHECK(closed && !err_hit && !rewind_fails && !open_fails && close_kind == 0, "C13: forwarding succeeds only if qmail-queue accepted the complete message");
  if (N > 0 && in[N - 1] != '\n') WITNESS("forwarded_partial_last_line");
  WITNESS("forwarded");
}
