/* C13 - qmail-local.c mailprogram(): a program instruction and its exit code.
 *
 * Encoded from /repo: qmail-local.c (text before main: mailprogram, temp_*), wait_pid.c,
 * wait.h macros, seek.h inline.  fork() returns -1, 0 (child side) or a pid; waitpid
 * reports any status 0..65535, so all 256 exit codes and all signal numbers are
 * covered in one query.
 *
 * Reference (qmail-command(8)): the child runs  sh -c command  with the message on its
 * standard input (descriptor 0 rewound first); exit code 0: delivered; 99: delivered,
 * ignore all further instructions; 100: hard error; 111: soft error; 64, 65, 70, 76,
 * 77, 78, 112: hard; everything else: soft.  qmail-local reports hard as 100 and soft as
 * 111 (qmail-local(8)).  A child killed by a signal has no exit code; the documents are
 * silent, the only demand made here is that it does not count as success.
 */
#include "verif.h"
#include <unistd.h>
#include <sys/wait.h>
#include "c13_common.h"
#include "gen_qmail-local.c"

#define CHILD 77

int fork_ret_kind;               /* 0: fork fails, 1: we are the child, 2: parent */
int wstat_in;
unsigned char rewind_fails, exec_fails, eintr_once;

void sym_inputs(void)
{
#ifdef REPLAY
#include "replay_inputs.inc"
#else
  SYM(fork_ret_kind); SYM(wstat_in); SYM(rewind_fails); SYM(exec_fails); SYM(eintr_once);
#endif
}

static char PROG[] = "exit 3";
static int rewound, forked, waited, execd, pipedefault;
int ideal_getc(substdio *s) { return -1; }
int ideal_putc(substdio *s, unsigned char c) { return 0; }
int ideal_flush(substdio *s) { return 0; }

off_t vf_lseek(int fd, off_t off, int whence)
{
  CHECK(fd == 0 && off == 0 && whence == SEEK_SET, "descriptor 0 is rewound");
  CHECK(!forked, "the message is rewound before the program is started");
  if (rewind_fails) { errno = ESPIPE; return -1; }
  rewound = 1;
  return 0;
}

pid_t vf_fork(void)
{
  CHECK(rewound, "C13: the program finds the message at its beginning");
  forked = 1;
  if (fork_ret_kind == 0) { errno = EAGAIN; return -1; }
  return fork_ret_kind == 1 ? 0 : CHILD;
}

int vf_execv(const char *path, char *const argv[])
{
  CHECK(fork_ret_kind == 1, "exec only in the child");
  CHECK(c13_streq(path, "/bin/sh", 16), "C13: the command is given to sh");
  CHECK(argv[1] && c13_streq(argv[1], "-c", 4) && argv[2] == PROG && argv[3] == 0, "C13: sh -c command, the rest of the line unchanged");
  execd = 1;
  if (exec_fails) { errno = ENOENT; return -1; }
  WITNESS("child_execs_sh");
  PATH_END();
  return -1;
}

pid_t vf_waitpid(pid_t pid, int *wstat, int options)
{
  CHECK(fork_ret_kind == 2 && pid == CHILD && options == 0, "the parent waits for its child");
  if (eintr_once) { eintr_once = 0; errno = EINTR; return -1; }
  waited = 1;
  *wstat = wstat_in;
  return CHILD;
}

static int ref_class(int code)     /* 0 ok, 99 stop, 100 hard, 111 soft */
{
  if (code == 0) return 0;
  if (code == 99) return 99;
  if (code == 100) return 100;
  if (code == 111) return 111;
  if (code == 64 || code == 65 || code == 70 || code == 76 || code == 77 || code == 78 || code == 112) return 100;
  return 111;
}

void vf__exit(int status)
{
  if (rewind_fails) { CHECK(status == 111 && !forked, "unseekable message: temporary failure, nothing run"); WITNESS("rewind_failed"); }
  else if (fork_ret_kind == 0) { CHECK(status == 111, "fork failure is temporary"); WITNESS("fork_failed"); }
  else if (fork_ret_kind == 1) { CHECK(execd && exec_fails && status == 111, "child: only a failed exec ends in exit, as a temporary failure"); WITNESS("exec_failed"); }
  else {
    CHECK(waited, "the parent gives up only after the child ended");
    if (wstat_in & 127) { CHECK(status != 0, "C13: a program killed by a signal is not a success"); WITNESS("program_crashed"); }
    else {
      int cl = ref_class(wstat_in >> 8);
      CHECK(cl == 100 || cl == 111, "C13: exit codes 0 and 99 are successes, qmail-local goes on");
      CHECK(status == cl, "C13: program exit code is mapped to hard (100) / soft (111) as qmail-command(8) lists");
      if ((wstat_in >> 8) == 100) WITNESS("exit100_hard");
      if ((wstat_in >> 8) == 111) WITNESS("exit111_soft");
      if ((wstat_in >> 8) == 78) WITNESS("exit78_hard");
      if ((wstat_in >> 8) == 1) WITNESS("exit1_soft");
    }
  }
  PATH_END();
#ifdef VERIF_CBMC
  __CPROVER_assume(0);
#endif
}

void vmain(void)
{
  int cl;
  sym_inputs();
  ASSUME(fork_ret_kind >= 0 && fork_ret_kind <= 2);
  ASSUME(wstat_in >= 0 && wstat_in <= 0xffff);
  flag99 = 0;
  mailprogram(PROG);
  CHECK(fork_ret_kind == 2 && waited && !(wstat_in & 127), "mailprogram returns only in the parent, after a normal child exit");
  cl = ref_class(wstat_in >> 8);
  CHECK(cl == 0 || cl == 99, "C13: only exit codes 0 and 99 count as successful delivery");
  CHECK(flag99 == (cl == 99), "C13: exit code 99, and only 99, makes qmail-local ignore the following instructions");
  if (cl == 99) WITNESS("exit99_stop");
  if (cl == 0) WITNESS("exit0_ok");
}
