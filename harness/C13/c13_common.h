/* c13_common.h - pieces shared by the C13 harnesses that run qmail-local.c main().
 * Included after verif.h and before gen_qmail-local.c. */
#ifndef C13_COMMON_H
#define C13_COMMON_H

#include <errno.h>
#include <stddef.h>
#include <sys/types.h>
#include <unistd.h>
#include "substdio.h"
#include "stralloc.h"

/* strerr_die.c is not linked: the diagnostics text is not part of C13, the status is */
struct strerr;
void strerr_warn(char *x1, char *x2, char *x3, char *x4, char *x5, char *x6, struct strerr *se) {}
void strerr_die(int e, char *x1, char *x2, char *x3, char *x4, char *x5, char *x6, struct strerr *se)
{
  _exit(e);
#ifdef VERIF_CBMC
  __CPROVER_assume(0);
#endif
}

/* env.c is not linked (it allocates with symbolic sizes): observing stubs */
static unsigned int nenv;
int env_init(void) { return 1; }
#ifndef C13_OWN_ENV_PUT2
int env_put2(char *name, char *val) { ++nenv; return 1; }
#endif
void sig_pipeignore(void) {}
void sig_pipedefault(void) {}

/* strlen() with a concrete answer for the symbolic argument strings.  The harness
 * registers each such string with its length (concrete per query) and ASSUMEs that its
 * bytes are non-NUL up to there; vf_strlen re-checks that, so the answer is sound.
 * Without this every stralloc offset after the first str_len() of a symbolic string is
 * symbolic and main() does not close (measured on C12/ufline.c: no verdict in 600 s,
 * 6 s with it).  The object comparison is decided during symbolic execution. */
#define C13_NREG 4
static const char *c13_reg_s[C13_NREG];
static unsigned int c13_reg_n[C13_NREG];
static unsigned int c13_nreg;
static void c13_reg(const char *s, unsigned int n) { c13_reg_s[c13_nreg] = s; c13_reg_n[c13_nreg] = n; ++c13_nreg; }

static int c13_same(const char *a, const char *b)
{
#ifdef VERIF_CBMC
  return b != 0 && __CPROVER_POINTER_OBJECT(a) == __CPROVER_POINTER_OBJECT(b) && __CPROVER_POINTER_OFFSET(a) == 0;
#else
  return a == b;
#endif
}

size_t vf_strlen(const char *s)
{
  size_t n = 0;
  unsigned int k, i;
  for (k = 0; k < C13_NREG; ++k) {
    if (k < c13_nreg && c13_same(s, c13_reg_s[k])) {
      for (i = 0; i < 16; ++i) { if (i >= c13_reg_n[k]) break; CHECK(s[i] != 0, "harness: registered string has no NUL inside its length"); }
      CHECK(s[c13_reg_n[k]] == 0, "harness: registered string is NUL-terminated at its length");
      return c13_reg_n[k];
    }
  }
#ifdef VERIF_CBMC
  /* a pointer into a registered string (s + j): the scan cannot need more steps than the string is long */
  for (k = 0; k < C13_NREG; ++k) {
    if (k < c13_nreg && c13_reg_s[k] != 0 && __CPROVER_POINTER_OBJECT(s) == __CPROVER_POINTER_OBJECT(c13_reg_s[k])) {
      for (i = 0; i < 16; ++i) { if (i > c13_reg_n[k]) break; if (!s[i]) return i; }
      CHECK(0, "harness: registered string is NUL-terminated");
    }
  }
#endif
  while (s[n]) ++n;
  return n;
}

static int c13_streq(const char *a, const char *b, unsigned int max)
{
  unsigned int i;
  for (i = 0; i < 64; ++i) { if (i >= max) break; if (a[i] != b[i]) return 0; if (!a[i]) return 1; }
  return 0;
}

#endif
