/* C13 - qmail-local.c main(): checkhome(), safeext, qmesearch()/qmeexists(): which
 * .qmail file controls the address, and the permission checks before any delivery.
 *
 * main() is run from its first statement with a real argument vector: ext = EL symbolic
 * non-NUL bytes (every byte value: upper case, dots, slashes, dashes), dash = DASH ("-"
 * or ""), empty sender.  The home directory has a symbolic st_mode; the directory holds
 * up to 3 files with symbolic names (any NUL-terminated strings) and symbolic
 * permission bits, all regular files.  stat/open/fstat answer from that table, keyed by
 * the path string.  slurpclose() is a stub that checks which descriptor it is given (and
 * the forward-only flag qmeexists derived from the x bit) and ends the path; mailfile()
 * is an observing stub.  bouncexf() is cut (own obligation), env_put2 is a stub.
 *
 * Reference (dot-qmail(5), qmail-local(8)):
 *   - home directory group/other-writable (auto_patrn bits, conf-patrn) or sticky:
 *     delivery is deferred (111) before anything else is looked at;
 *   - the control file is .qmail<dash><ext> with ext lower-cased and dots replaced by
 *     colons; if it does not exist, .qmail<dash><prefix>default for each prefix of ext
 *     that is empty or ends with a dash, longest first ("foo-bar": .qmail-foo-bar,
 *     .qmail-foo-default, .qmail-default); the first that exists is used;
 *   - none exists: bounce (100) if dash is non-empty, defaultdelivery if dash is empty;
 *   - control file writable (auto_patrn bits): 111, nothing delivered;
 *   - control file executable: forward-only (the refusal itself is in dotqmail_loop).
 *   Safety: every path handed to open()/stat() except "." begins with ".qmail" and has
 *   no dot after the first byte, so it names something below the home directory (an
 *   ext with '/' descends, it cannot climb: that is what the property demands; '/' in
 *   ext is not flagged).
 *   Documents are silent on: non-regular files named .qmail-*, dash = "" with a file
 *   called .qmaildefault (assumed away).
 */
#include "verif.h"
#include <unistd.h>
#include <sys/stat.h>
#include <fcntl.h>
#include "c13_common.h"
void bouncexf(void);                  /* cut: definitions renamed to *_real in the generated copy */
void mailfile(char *fn);
void maildir(char *fn);
void mailprogram(char *prog);
void mailforward(char **recips);
#include "gen_qmail-local.c"

#ifndef EL
#define EL 3
#endif
#ifndef DASHLEN
#define DASHLEN 1
#endif
#ifndef NFLAG
#define NFLAG 0
#endif
#ifndef OWNER
#define OWNER 0                  /* 1: non-empty sender, so that the -owner files are looked up too */
#endif
#define DASH (DASHLEN ? "-" : "")
#define NF 3
#define NAMEMAX (6 + DASHLEN + EL + (OWNER ? 14 : 7) + 1)
#define NCAND (EL + 2)

/* ---------------- symbolic inputs */
char ext_in[EL + 1];
char fname[NF][NAMEMAX];
unsigned int fperm[NF];          /* permission bits of each file */
unsigned int home_mode;

void sym_inputs(void)
{
#ifdef REPLAY
#include "replay_inputs.inc"
#else
  SYM_ARR(ext_in); SYM_ARR(fname[0]); SYM_ARR(fname[1]); SYM_ARR(fname[2]); SYM_ARR(fperm); SYM(home_mode);
#endif
}

/* ---------------- model state */
static unsigned int nlook;       /* open()/stat() calls on anything but "." */
static int home_statted;
static int sel = -1;             /* reference: index of the controlling file, -1 none */
static char cand[NCAND][NAMEMAX];
static unsigned int ncand;

static char errbuf_[16];
static substdio sserr_ = SUBSTDIO_FDBUF(write, 2, errbuf_, sizeof errbuf_);
static substdio ssout_ = SUBSTDIO_FDBUF(write, 1, errbuf_, sizeof errbuf_);
substdio *subfderr = &sserr_;
substdio *subfdoutsmall = &ssout_;
int ideal_getc(substdio *s) { return -1; }
int ideal_putc(substdio *s, unsigned char c) { return 0; }
int ideal_flush(substdio *s) { return 0; }

static int lookup(const char *path)
{
  int k;
  for (k = 0; k < NF; ++k) if (c13_streq(path, fname[k], NAMEMAX)) return k;
  return -1;
}

/* reference candidate list, written from dot-qmail(5) */
static void ref_candidates(void)
{
  char safe[EL + 1];
  unsigned int i, n, q;
  int b;
  for (i = 0; i < EL; ++i) {
    char c = ext_in[i];
    if (c >= 'A' && c <= 'Z') c = (char) (c - 'A' + 'a');
    if (c == '.') c = ':';
    safe[i] = c;
  }
  n = 0;
  for (q = 0; q < 6; ++q) cand[0][n++] = ".qmail"[q];
  for (q = 0; q < DASHLEN; ++q) cand[0][n++] = '-';
  for (q = 0; q < EL; ++q) cand[0][n++] = safe[q];
  cand[0][n] = 0;
  ncand = 1;
  for (b = EL; b >= 0; --b) {
    if (b == 0 || safe[b - 1] == '-') {
      n = 0;
      for (q = 0; q < 6; ++q) cand[ncand][n++] = ".qmail"[q];
      for (q = 0; q < DASHLEN; ++q) cand[ncand][n++] = '-';
      for (q = 0; q < EL; ++q) { if (q >= (unsigned int) b) break; cand[ncand][n++] = safe[q]; }
      for (q = 0; q < 7; ++q) cand[ncand][n++] = "default"[q];
      cand[ncand][n] = 0;
      ++ncand;
    }
  }
  sel = -1;
  for (i = 0; i < NCAND; ++i) {
    if (i >= ncand) break;
    if (sel < 0) sel = lookup(cand[i]);
  }
}

static int owner_exists = -1, ownerdefault_exists = -1;    /* answers given to the two stat() calls */

static void check_path(const char *p, int owner)
{
  unsigned int i;
  int known = 0, dot = 0;
  CHECK(p[0] == '.' && p[1] == 'q' && p[2] == 'm' && p[3] == 'a' && p[4] == 'i' && p[5] == 'l',
        "C13: every file looked at is called .qmail...");
  for (i = 1; i < NAMEMAX; ++i) { if (!p[i]) break; if (p[i] == '.') dot = 1; }
  CHECK(i < NAMEMAX, "path fits NAMEMAX (harness sizing)");
  CHECK(!dot, "C13: no dot after the first byte of a .qmail file name (the lookup cannot climb out of the home directory)");
  if (!owner) {
    for (i = 0; i < NCAND; ++i) { if (i >= ncand) break; if (c13_streq(p, cand[i], NAMEMAX)) known = 1; }
    CHECK(known, "C13: only the documented candidate names are looked at");
  } else {
    /* dot-qmail(5): .qmail-ext-owner, then .qmail-ext-owner-default; ext as in the exact candidate */
    static const char o1[] = "-owner", o2[] = "-owner-default";
    const char *suf = owner == 1 ? o1 : o2;
    unsigned int n = 6 + DASHLEN + EL, q;
    known = 1;
    for (q = 0; q < 6 + DASHLEN + EL; ++q) if (p[q] != cand[0][q]) known = 0;
    for (q = 0; q < 15; ++q) { if (p[n + q] != suf[q]) known = 0; if (!suf[q]) break; }
    CHECK(known, "C13: the owner files are .qmail-ext-owner and .qmail-ext-owner-default");
  }
  CHECK(home_statted, "C13: the home directory is checked before any .qmail file is looked at");
  ++nlook;
}

/* ---------------- system calls */
mode_t vf_umask(mode_t m) { return 022; }
int vf_chdir(const char *d) { return 0; }
time_t vf_time(time_t *t) { return 820458334; }

/* the -owner / -owner-default probes (dot-qmail(5)): whether they are made with stat() or by opening the file is the
 * program's business; the order and the names are not */
static int owner_probe(const char *path)
{
  int k;
  CHECK(OWNER, "no look-up of anything but the home directory and the candidates with an empty sender");
  CHECK(owner_exists == -1 || (owner_exists == 1 && ownerdefault_exists == -1), "C13: -owner is looked up once, -owner-default only if it exists");
  if (owner_exists == -1) {
    check_path(path, 1);
    k = lookup(path);
    owner_exists = k >= 0;
  } else {
    check_path(path, 2);
    k = lookup(path);
    ownerdefault_exists = k >= 0;
  }
  return k;
}

static int control_opened;              /* a candidate was opened successfully: the search is over */

int vf_stat(const char *path, struct stat *st)
{
  int k;
  if (path[0] == '.' && path[1] == 0) {
    home_statted = 1;
    st->st_mode = S_IFDIR | (home_mode & 07777);
    return 0;
  }
  k = owner_probe(path);
  if (k < 0) { errno = ENOENT; return -1; }
  st->st_mode = S_IFREG | (fperm[k] & 0777);
  return 0;
}

int vf_open(const char *path, int flags, ...)
{
  int k;
  CHECK((flags & O_ACCMODE) == O_RDONLY, ".qmail files are opened for reading");
  if (OWNER && control_opened) {
    k = owner_probe(path);
    if (k < 0) { errno = ENOENT; return -1; }
    return 10 + k;
  }
  check_path(path, 0);
  k = lookup(path);
  if (k < 0) { errno = ENOENT; return -1; }
  control_opened = 1;
  return 10 + k;
}

int vf_fstat(int fd, struct stat *st)
{
  CHECK(fd >= 10 && fd < 10 + NF, "fstat of a .qmail descriptor");
  st->st_mode = S_IFREG | (fperm[fd - 10] & 0777);
  return 0;
}

int vf_close(int fd) { return 0; }

#define HOME_BAD ((home_mode & (unsigned int) auto_patrn) || (!NFLAG && (home_mode & 01000)))

int flagforwardonly;              /* main()'s local, made visible by an edit of the generated copy (plan.py) */

int slurpclose(int fd, stralloc *sa, int bufsize)
{
  /* the path ends here: what main() does with the contents is obligation dotqmail_loop,
   * which starts from "qmesearch returned (fd, cutable)" */
  CHECK(!HOME_BAD, "C13: writable or sticky home directory: no .qmail file is read");
  CHECK(sel >= 0 && fd == 10 + sel, "C13: the control file is the first existing candidate in the documented order");
  if (sel >= 0) {
    CHECK(!(fperm[sel] & (unsigned int) auto_patrn), "C13: a writable .qmail file is never read");
    CHECK(flagforwardonly == !!(fperm[sel] & 0100), "C13: the execute bit of the control file is what restricts it to forwarding");
    if (c13_streq(fname[sel], cand[0], NAMEMAX)) WITNESS("exact_name_used");
    if (ncand >= 3 && c13_streq(fname[sel], cand[1], NAMEMAX)) WITNESS("longest_default_used");
    if (ncand >= 3 && c13_streq(fname[sel], cand[ncand - 1], NAMEMAX)) WITNESS("shortest_default_used");
    if (fperm[sel] & 0100) WITNESS("executable_qmail");
#if OWNER
    /* dot-qmail(5): envelope sender of forwarded copies */
    CHECK(owner_exists != -1, "C13: the -owner file is looked up for a non-bounce sender");
    if (owner_exists == 1 && ownerdefault_exists == 1) { CHECK(c13_streq(ueo.s, "u-x-owner-@h-@[]", 24), "C13: -owner and -owner-default exist: VERP sender local-owner-@domain-@[]"); WITNESS("verp_sender"); }
    else if (owner_exists == 1) { CHECK(c13_streq(ueo.s, "u-x-owner@h", 24), "C13: -owner exists: sender local-owner@domain"); WITNESS("owner_sender"); }
    else { CHECK(c13_streq(ueo.s, "s@h", 24), "C13: no -owner file: the original envelope sender is kept"); WITNESS("sender_kept"); }
#endif
    if (EL >= 1 && ext_in[0] == '.') WITNESS("dot_in_ext");
    if (EL >= 1 && ext_in[0] == 'A') WITNESS("upper_case_in_ext");
    if (EL >= 1 && ext_in[0] == '/') WITNESS("slash_in_ext");
  }
  PATH_END();
  return 0;
}

void mailfile(char *fn)
{
  /* only reachable without a control file: defaultdelivery for the plain user address */
  CHECK(!NFLAG, "-n delivers nothing");
  CHECK(!HOME_BAD, "C13: writable or sticky home directory: nothing is delivered");
  CHECK(sel < 0, "C13: an existing control file is read, not skipped");
  CHECK(DASHLEN == 0, "C13: no control file and a non-empty dash: bounce, no delivery");
  CHECK(c13_streq(fn, "./Mailbox", 16), "C13: no .qmail for the plain user address: defaultdelivery");
  CHECK(OWNER ? nlook >= ncand : nlook == ncand, "C13: every candidate was tried before falling back");
  WITNESS("no_file_default_delivery");
  PATH_END();
}

void vf__exit(int status)
{
  if (HOME_BAD) {
    CHECK(status == 111, "C13: writable or sticky home directory: temporary failure");
    CHECK(nlook == 0, "C13: writable or sticky home directory: no .qmail file is looked at");
    if (home_mode & 01000) WITNESS("sticky_home_deferred");
    if (home_mode & (unsigned int) auto_patrn) WITNESS("writable_home_deferred");
  } else if (sel >= 0 && (fperm[sel] & (unsigned int) auto_patrn)) {
    CHECK(status == 111, "C13: writable .qmail file: temporary failure, file not read");
    WITNESS("writable_qmail_deferred");
  } else if (sel >= 0) {
    CHECK(0, "C13: a usable control file is read");
  } else if (DASHLEN) {
    CHECK(status == 100, "C13: no control file for an extension address: bounce (100)");
    CHECK(nlook == ncand, "C13: every candidate was tried before bouncing");
    WITNESS("no_file_bounce");
  } else {
    CHECK(NFLAG && status == 0, "no control file, plain user address: only -n ends here, after printing");
    WITNESS("dry_run_default");
  }
  PATH_END();
#ifdef VERIF_CBMC
  __CPROVER_assume(0);
#endif
}

void bouncexf(void) {}
void maildir(char *fn) { CHECK(0, "no maildir instruction in this harness"); PATH_END(); }
void mailprogram(char *prog) { CHECK(0, "no program instruction in this harness"); PATH_END(); }
void mailforward(char **recips) { CHECK(0, "no forward instruction in this harness"); PATH_END(); }

void vmain(void)
{
  static char *argv[11];
  unsigned int i, k, a = 0;
  sym_inputs();
  for (i = 0; i < EL; ++i) ASSUME(ext_in[i] != 0);
  ASSUME(ext_in[EL] == 0);
  for (k = 0; k < NF; ++k) ASSUME(fname[k][NAMEMAX - 1] == 0);
#if DASHLEN == 0
  /* documents are silent on a file called .qmaildefault */
  for (k = 0; k < NF; ++k) ASSUME(!c13_streq(fname[k], ".qmaildefault", NAMEMAX));
#endif
  c13_reg(ext_in, EL);
  ref_candidates();
  argv[a++] = "qmail-local";
#if NFLAG
  argv[a++] = "-n";
#endif
  argv[a++] = "u"; argv[a++] = "/h"; argv[a++] = "u-x"; argv[a++] = DASH; argv[a++] = ext_in;
  argv[a++] = "h"; argv[a++] = OWNER ? "s@h" : ""; argv[a++] = "./Mailbox"; argv[a] = 0;
  local_main((int) a, argv);
  CHECK(0, "main() does not return");
}
