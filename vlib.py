"""vlib - plan vocabulary shared by ./check and harness/Cxx/plan.py files.

A plan file defines   def obligations(tier) -> [Obl, ...]
Each Obl is one harness; the driver expands its size grid into independent solver
queries (sizes concrete per query, contents symbolic: DESIGN.md 2.4).
"""
import os
import re

VERIF = os.path.dirname(os.path.abspath(__file__))
REPO = os.environ.get("VERIF_REPO", "/repo")


class PlanError(Exception):
    pass


class Prog:
    """A /repo source file that is regenerated into the build directory with small,
    mechanical edits (all of them fail loudly if their anchor is gone):
      nomain   keep only the text before `int main(`   (same recipe as tests/Makefile)
      main_as  rename `int main(` to `int <main_as>(`
      cut      [names]: rename the *definition* of each function to <name>_real, so the
               harness can supply an observing stub or a contract under the old name
      unstatic [names]: drop `static` from these definitions (file-scope objects/functions)
      link     True: compile the generated file as its own translation unit;
               False: the harness #includes "gen_<file>" (gives access to statics)
      sub      [(regex, repl, count)] extra edits, each must match exactly `count` times (count may be a tuple of allowed counts)
    """

    def __init__(self, file, nomain=False, main_as=None, cut=(), unstatic=(), link=False,
                 sub=(), out=None):
        self.file = file
        self.nomain = nomain
        self.main_as = main_as
        self.cut = list(cut)
        self.unstatic = list(unstatic)
        self.link = link
        self.sub = list(sub)
        self.out = out or ("gen_" + os.path.basename(file))

    def generate(self, repo, dest_dir):
        path = os.path.join(repo, self.file)
        with open(path, encoding="latin-1") as f:
            text = f.read()
        if self.nomain:
            m = re.search(r"^int main\(", text, re.M)
            if not m:
                raise PlanError("%s: no `int main(` to truncate at" % self.file)
            text = text[:m.start()]
        if self.main_as:
            text, n = re.subn(r"^int main\(", "int %s(" % self.main_as, text, flags=re.M)
            if n != 1:
                raise PlanError("%s: expected one `int main(`, found %d" % (self.file, n))
        for name in self.cut:
            text = _rename_definition(text, name, name + "_real", self.file)
        for name in self.unstatic:
            pat = re.compile(r"^static\s+((?:[A-Za-z_][\w \t\*]*?[ \t\*])?%s\b)" % re.escape(name), re.M)
            text, n = pat.subn(r"\1", text)
            if n < 1:
                raise PlanError("%s: no static definition of %s" % (self.file, name))
        for (rx, repl, count) in self.sub:
            text, n = re.subn(rx, repl, text, flags=re.M)
            if (n not in count) if isinstance(count, (tuple, list)) else (n != count):
                raise PlanError("%s: edit %r matched %d times, expected %d" % (self.file, rx, n, count))
        out = os.path.join(dest_dir, self.out)
        with open(out, "w", encoding="latin-1") as f:
            f.write('#line 1 "%s"\n' % path)  # edits above never add or remove lines
            f.write(text)
        return out


def _rename_definition(text, name, newname, fname):
    """Rename the definition (not prototypes, not call sites) of function `name`.
    Definitions in this code base start at column 0: `void addbounce(id,recip,report)`,
    `static void get(unsigned char *uc)`, or the bare name on its own line after the type."""
    pat = re.compile(r"^((?:[A-Za-z_][\w \t\*]*?[ \t\*])?)%s\(([^()]*)\)" % re.escape(name), re.M)
    hits = []
    for m in pat.finditer(text):
        if re.match(r"\s*;", text[m.end():m.end() + 40]):
            continue  # prototype
        head = m.group(1).strip()
        if head in ("return", "else", "if", "while", "for", "switch", "case"):
            continue
        hits.append(m)
    if len(hits) != 1:
        raise PlanError("%s: expected exactly one definition of %s at column 0, found %d"
                        % (fname, name, len(hits)))
    m = hits[0]
    s = m.start() + len(m.group(1))
    return text[:s] + newname + text[s + len(name):]


STD_FLAGS = []                      # cbmc 6 default checks: bounds, pointer, div-by-zero,
#                                     signed-overflow, undefined-shift, pointer-primitive
NO_STD = ["--no-standard-checks"]   # FS-model / ordering harnesses (DESIGN.md 2.2)


class Obl:
    """One obligation group = one harness entry (vmain) + the /repo units it encodes."""

    def __init__(self, name, harness, repo=(), progs=(), lib=(), defines=None, sysrename=(),
                 grid=None, unwind=None, unwind_default=None, flags=(), std_checks=True,
                 backend="minisat", timeout=600, mem_gb=14, witness_mode="inline",
                 functions=(), stubs=(), assumes=(), outside=(), cuts=(), claim="",
                 expect_witnesses=None, native=True, extra_native_flags=()):
        self.name = name
        self.harness = harness
        self.repo = list(repo)
        self.progs = list(progs)
        self.lib = list(lib)
        self.defines = dict(defines or {})
        self.sysrename = list(sysrename)
        self.grid = list(grid) if grid else [{}]
        self.unwind = unwind or {}
        self.unwind_default = unwind_default
        self.flags = list(flags)
        self.std_checks = std_checks
        self.backend = backend
        self.timeout = timeout
        self.mem_gb = mem_gb
        self.witness_mode = witness_mode
        self.functions = list(functions)
        self.stubs = list(stubs)
        self.assumes = list(assumes)
        self.outside = list(outside)
        self.cuts = list(cuts)
        self.claim = claim
        self.expect_witnesses = expect_witnesses
        self.native = native
        self.extra_native_flags = list(extra_native_flags)

    def unwind_for(self, point):
        u = self.unwind(point) if callable(self.unwind) else dict(self.unwind)
        d = self.unwind_default(point) if callable(self.unwind_default) else self.unwind_default
        return u, d


# libc entry points the environment model replaces.  They are renamed by -D in every
# translation unit (repo code, harness, model) so that the same objects link natively
# for replay without interposing on the C library.
def sysrename_flags(names):
    return ["-D%s=vf_%s" % (n, n) for n in names]


def load_plan(pid):
    import importlib.util
    spec = importlib.util.spec_from_file_location("plan_" + pid, os.path.join(VERIF, "harness", pid, "plan.py"))
    m = importlib.util.module_from_spec(spec)
    spec.loader.exec_module(m)
    return m


_borrow_depth = 0


def borrow(pid, names, tier):
    """Obligations of another property's plan, decided again as part of this one (shared harness files).
    Only a plan's OWN obligations can be borrowed: while a plan is being evaluated for a borrower its own borrow() calls
    yield nothing, which also keeps mutual borrowing (C07 -> C01 -> C20 -> C07) from recursing."""
    global _borrow_depth
    if _borrow_depth > 0:
        return []
    out = []
    _borrow_depth += 1
    try:
        theirs = load_plan(pid).obligations(tier)
    finally:
        _borrow_depth -= 1
    for o in theirs:
        if o.name in names:
            if not o.harness.startswith("../"):
                o.harness = "../%s/%s" % (pid, o.harness)
            o.lib = [(l if ("/" in l or not os.path.exists(os.path.join(VERIF, "harness", pid, l))) else "harness/%s/%s" % (pid, l)) for l in o.lib]
            out.append(o)
    missing = set(names) - {o.name for o in out}
    if missing:
        raise PlanError("plan %s has no obligation(s) %s" % (pid, ",".join(sorted(missing))))
    return out
