/* ideal_substdio.c - ideal byte-stream model replacing substdo.c / substdi.c /
 * substdio_copy.c (DESIGN.md 2.2, layer 1).  It implements exactly the contract that
 * the layer-0 lemmas (harness/C20/substdio_*.c) prove about the real buffered code:
 *   put/bput/putflush/puts  append exactly the given bytes, in order, or fail (-1);
 *   get                     delivers the source bytes in order, 0 at EOF, -1 on error;
 *   flush                   pushes what was accepted.
 * Where the bytes come from / go to is the harness's business, through three hooks.
 */
#include "substdio.h"

extern int ideal_getc(substdio *s);                   /* 0..255, -1 EOF, -2 read error */
extern int ideal_putc(substdio *s, unsigned char c);  /* 0, or -1 write error */
extern int ideal_flush(substdio *s);                  /* 0, or -1 write error */

int substdio_flush(substdio *s) { return ideal_flush(s); }

int substdio_put(substdio *s, const char *buf, size_t len)
{
  size_t i;
  for (i = 0; i < len; ++i)
    if (ideal_putc(s, (unsigned char) buf[i]) == -1) return -1;
  return 0;
}

int substdio_bput(substdio *s, const char *buf, size_t len) { return substdio_put(s, buf, len); }

int substdio_putflush(substdio *s, const char *buf, size_t len)
{
  if (ideal_flush(s) == -1) return -1;
  if (substdio_put(s, buf, len) == -1) return -1;
  return ideal_flush(s);
}

/* a read error that arrives after some bytes of the same call were already delivered is
 * reported by the NEXT call on that stream (the real code returns the error from the call
 * whose read() failed, and that call never also returns data) */
static substdio *err_pending_on = 0;

/* substdio_feed / substdio_PEEK / substdio_SEEK over the ideal stream (contract of substdi.c, C20 l0_substdio_in):
 * feed() makes 1..size unread bytes of the source available in place at s->x + s->n (s->p of them) and returns that
 * count, 0 at end of input, -1 on a read error; HOW MANY bytes one feed delivers is the read() boundary, i.e. nothing
 * the caller controls.  The ideal feed therefore takes the chunk size (1..IDEAL_FEED_MAX) from ideal_feed_tape[], which
 * a harness makes symbolic in sym_inputs() (left alone it is all zeroes: one byte per feed - every position a boundary),
 * so code that scans the buffer in place is exposed at every position of the chunk boundary. */
#ifndef IDEAL_FEED_MAX
#define IDEAL_FEED_MAX 4
#endif
#define IDEAL_FEED_TAPE 16
unsigned char ideal_feed_tape[IDEAL_FEED_TAPE];
unsigned int ideal_feed_i;
static int fed_size;              /* capacity of that stream's buffer, taken when it is first fed */
static substdio *fed_s = 0;       /* stream whose s->p counts bytes really buffered by feed (else s->p is only the ghost below) */

int ideal_next(substdio *s)       /* next unread byte of the stream: what feed buffered first, then the source */
{
  if (fed_s == s && s->p > 0) {
    unsigned char c = (unsigned char) s->x[s->n];
    s->p--; s->n++;
    if (!s->p) { s->n = fed_size; fed_s = 0; }   /* drained: the whole buffer is free again */
    return c;
  }
  return ideal_getc(s);
}

void ideal_ghost(substdio *s, int c)   /* ghost of the real read buffer, see substdio_get below */
{
  if (fed_s != s) s->p = (c == -1) ? 0 : 1;
}

ssize_t substdio_feed(substdio *s)
{
  int q, i = 0, c = 0, base;
  unsigned char t0 = 0, t1 = 0, t2 = 0, t3 = 0;
  if (fed_s == s && s->p > 0) return s->p;
  if (err_pending_on == s) { err_pending_on = 0; return -1; }
  if (fed_s != s) { s->p = 0; fed_size = s->n; }  /* s->p was only the ghost; nothing is buffered, s->n is the capacity */
  /* the chunk is always placed at the same offset (capacity - IDEAL_FEED_MAX), so that the caller's in-place pointer
   * is a constant for the solver; the real feed places it at capacity - r, which no caller may rely on */
  base = fed_size > 4 ? fed_size - 4 : 0;
  q = 1 + ideal_feed_tape[ideal_feed_i % IDEAL_FEED_TAPE] % IDEAL_FEED_MAX; ++ideal_feed_i;
  if (q > fed_size) q = fed_size;
  if (q > 4) q = 4;
  if (i < q && c >= 0) { c = ideal_getc(s); if (c >= 0) { t0 = (unsigned char) c; ++i; } }
  if (i < q && c >= 0) { c = ideal_getc(s); if (c >= 0) { t1 = (unsigned char) c; ++i; } }
  if (i < q && c >= 0) { c = ideal_getc(s); if (c >= 0) { t2 = (unsigned char) c; ++i; } }
  if (i < q && c >= 0) { c = ideal_getc(s); if (c >= 0) { t3 = (unsigned char) c; ++i; } }
  s->n = base; s->p = 0;
  if (!i) { fed_s = s; return c == -2 ? -1 : 0; }
  if (c == -2) err_pending_on = s;
  s->p = i;
  s->x[base] = (char) t0;
  if (i > 1) s->x[base + 1] = (char) t1;
  if (i > 2) s->x[base + 2] = (char) t2;
  if (i > 3) s->x[base + 3] = (char) t3;
  fed_s = s;
  return i;
}

char *substdio_peek(substdio *s) { return s->x + s->n; }
void substdio_seek(substdio *s, int len) { s->n += len; s->p -= len; }

ssize_t substdio_get(substdio *s, char *buf, size_t len)
{
  size_t n = 0;
  int c = -1;
  if (fed_s == s && s->p > 0) {                   /* bytes buffered by feed are delivered first, as the real get does */
    while (n < len && fed_s == s) buf[n++] = (char) ideal_next(s);
    return (ssize_t) n;
  }
  if (fed_s == s) { s->n = fed_size; fed_s = 0; }
  if (err_pending_on == s) { err_pending_on = 0; return -1; }
  while (n < len) {
    c = ideal_getc(s);
    if (c == -2 && n) { err_pending_on = s; break; }
    if (c < 0) break;
    buf[n++] = (char) c;
#ifdef IDEAL_GET_ONE
    break;   /* a read may always return fewer bytes than asked for */
#endif
  }
  /* ghost of the real read buffer: after a call that delivered data the stream object may hold read-ahead bytes of the
   * descriptor it is bound to (s->p != 0) until end of file is seen or substdio_fdbuf() (the real substdio.c) resets it;
   * a harness can assert s->p == 0 where a stream is expected to start afresh */
  s->p = (n || c == -2) ? 1 : 0;
  if (n) return (ssize_t) n;
  return c == -2 ? -1 : 0;
}

int substdio_copy(substdio *ssout, substdio *ssin)
{
  for (;;) {
    int c = ideal_next(ssin);
    if (c == -2) return -2;
    if (c == -1) return 0;
    if (ideal_putc(ssout, (unsigned char) c) == -1) return -3;
  }
}
