/* ideal_substdio.c - ideal byte-stream model replacing substdo.c / substdi.c /
 * substdio_copy.c (DESIGN.md 2.2, layer 1).  It implements exactly the contract that
 * the layer-0 lemmas (harness/C20/substdio_*.c) prove about the real buffered code:
 *   put/bput/putflush/puts  append exactly the given bytes, in order, or fail (-1);
 *   get                     delivers the source bytes in order, 0 at EOF, -1 on error;
 *   flush                   pushes what was accepted.
 * Where the bytes come from / go to is the harness's business, through three hooks.
 */
#include "substdio.h"

extern int ideal_getc(substdio *s);                   /* 0..255, -1 EOF, -2 read error */
extern int ideal_putc(substdio *s, unsigned char c);  /* 0, or -1 write error */
extern int ideal_flush(substdio *s);                  /* 0, or -1 write error */

int substdio_flush(substdio *s) { return ideal_flush(s); }

int substdio_put(substdio *s, const char *buf, size_t len)
{
  size_t i;
  for (i = 0; i < len; ++i)
    if (ideal_putc(s, (unsigned char) buf[i]) == -1) return -1;
  return 0;
}

int substdio_bput(substdio *s, const char *buf, size_t len) { return substdio_put(s, buf, len); }

int substdio_putflush(substdio *s, const char *buf, size_t len)
{
  if (ideal_flush(s) == -1) return -1;
  if (substdio_put(s, buf, len) == -1) return -1;
  return ideal_flush(s);
}

/* a read error that arrives after some bytes of the same call were already delivered is
 * reported by the NEXT call on that stream (the real code returns the error from the call
 * whose read() failed, and that call never also returns data) */
static substdio *err_pending_on = 0;

ssize_t substdio_get(substdio *s, char *buf, size_t len)
{
  size_t n = 0;
  int c = -1;
  if (err_pending_on == s) { err_pending_on = 0; return -1; }
  while (n < len) {
    c = ideal_getc(s);
    if (c == -2 && n) { err_pending_on = s; break; }
    if (c < 0) break;
    buf[n++] = (char) c;
#ifdef IDEAL_GET_ONE
    break;   /* a read may always return fewer bytes than asked for */
#endif
  }
  /* ghost of the real read buffer: after a call that delivered data the stream object may hold read-ahead bytes of the
   * descriptor it is bound to (s->p != 0) until end of file is seen or substdio_fdbuf() (the real substdio.c) resets it;
   * a harness can assert s->p == 0 where a stream is expected to start afresh */
  s->p = (n || c == -2) ? 1 : 0;
  if (n) return (ssize_t) n;
  return c == -2 ? -1 : 0;
}

int substdio_copy(substdio *ssout, substdio *ssin)
{
  for (;;) {
    int c = ideal_getc(ssin);
    if (c == -2) return -2;
    if (c == -1) return 0;
    if (ideal_putc(ssout, (unsigned char) c) == -1) return -3;
  }
}
