/* ideal_getln.c - getln()/getln2() over the ideal stream (replaces getln.c, getln2.c).
 * Contract (proved for the real code by harness/C20 getln lemma): sa receives the bytes
 * up to and including the first sep; *match says whether sep was seen; -1 on read error
 * or allocation failure; the stream is left positioned after the separator. */
#include "substdio.h"
#include "stralloc.h"
#include "getln.h"

extern int ideal_next(substdio *s);          /* ideal_substdio.c: bytes buffered by substdio_feed first, then ideal_getc() */
extern void ideal_ghost(substdio *s, int c);

int getln(substdio *ss, stralloc *sa, int *match, int sep)
{
  if (!stralloc_ready(sa, 0)) return -1;
  sa->len = 0;
  for (;;) {
    char ch;
    int c = ideal_next(ss);
    ideal_ghost(ss, c);             /* ghost of the read buffer, see ideal_substdio.c substdio_get */
    if (c == -2) return -1;
    if (c == -1) { *match = 0; return 0; }
    ch = (char) c;
    if (!stralloc_append(sa, &ch)) return -1;
    if ((unsigned char) ch == (unsigned char) sep) { *match = 1; return 0; }
  }
}

/* getln2() over the ideal stream.  Contract of the real getln2.c (C20 l0_getln): the line
 * up to and including the first sep is delivered in TWO pieces - what earlier buffer
 * fills carried over is appended to sa, the rest (always containing the separator) is
 * returned in place as (*cont, *clen); *clen == 0 means end of input, with whatever came
 * before it in sa.  Where the split falls depends on the read-buffer boundary, i.e. on
 * nothing the caller controls: the harness chooses it through ideal_getln2_split(), so a
 * caller that looks at only one of the two pieces is exposed at every boundary position. */
#ifndef IDEAL_LINE_MAX
#define IDEAL_LINE_MAX 64
#endif
extern unsigned int ideal_getln2_split(unsigned int linelen);   /* 0 .. linelen-1 bytes go to sa */

int getln2(substdio *ss, stralloc *sa, char **cont, unsigned int *clen, int sep)
{
  static char piece[IDEAL_LINE_MAX];
  unsigned int n = 0, k, i;
  int match = 0;
  if (!stralloc_ready(sa, 0)) return -1;
  sa->len = 0;
  for (;;) {
    int c = ideal_next(ss);
    ideal_ghost(ss, c);             /* ghost of the read buffer, see ideal_substdio.c substdio_get */
    if (c == -2) return -1;
    if (c == -1) break;
    if (n >= IDEAL_LINE_MAX) return -1;            /* harness sizing: treated as out of memory */
    piece[n++] = (char) c;
    if ((unsigned char) c == (unsigned char) sep) { match = 1; break; }
  }
  if (!match) {                                      /* end of input: everything read so far is in sa */
    for (i = 0; i < n; ++i) if (!stralloc_append(sa, piece + i)) return -1;
    *clen = 0;
    return 0;
  }
  k = ideal_getln2_split(n);
  if (k >= n) k = n - 1;
  for (i = 0; i < k; ++i) if (!stralloc_append(sa, piece + i)) return -1;
  *cont = piece + k;
  *clen = n - k;
  return 0;
}
