/* ideal_getln.c - getln()/getln2() over the ideal stream (replaces getln.c, getln2.c).
 * Contract (proved for the real code by harness/C20 getln lemma): sa receives the bytes
 * up to and including the first sep; *match says whether sep was seen; -1 on read error
 * or allocation failure; the stream is left positioned after the separator. */
#include "substdio.h"
#include "stralloc.h"
#include "getln.h"

extern int ideal_getc(substdio *s);

int getln(substdio *ss, stralloc *sa, int *match, int sep)
{
  if (!stralloc_ready(sa, 0)) return -1;
  sa->len = 0;
  for (;;) {
    char ch;
    int c = ideal_getc(ss);
    if (c == -2) return -1;
    if (c == -1) { *match = 0; return 0; }
    ch = (char) c;
    if (!stralloc_append(sa, &ch)) return -1;
    if ((unsigned char) ch == (unsigned char) sep) { *match = 1; return 0; }
  }
}
