/* native_main.c - entry point and failure reporting of the native replay build.
 * Never compiled by goto-cc. Uses _Exit/fputs only, so that -Dread=vf_read style
 * renames of the harness do not interfere. */
#include <stdio.h>
#include <stdlib.h>

extern void vmain(void);

void vf_native_fail(const char *msg)
{
  fprintf(stderr, "REPLAY-FAIL: %s\n", msg);
  fflush(stderr);
  _Exit(1);
}

void vf_native_assume_fail(const char *what)
{
  fprintf(stderr, "REPLAY-ASSUME-FALSE: %s\n", what);
  fflush(stderr);
  _Exit(3);
}

void vf_native_path_end(void)
{
  fprintf(stderr, "REPLAY: path ended without failure\n");
  fflush(stderr);
  _Exit(0);
}

int main(void)
{
  vmain();
  fprintf(stderr, "REPLAY: run completed without failure\n");
  return 0;
}
