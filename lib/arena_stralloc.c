/* arena_stralloc.c - replaces only stralloc_eady.c (stralloc_ready, stralloc_readyplus)
 * by fixed-capacity slots, so that no malloc/realloc with a symbolic size is encoded
 * (DESIGN.md 2.3).  "Growth is not needed inside the bound" is an obligation: the CHECK
 * below fails if any path asks for more than ARENA_CAP bytes.  The real growth
 * arithmetic is proved separately (harness/C20 alloc lemmas).  All other stralloc_*
 * functions remain the real code. */
#include "verif.h"
#include "stralloc.h"

#ifndef ARENA_CAP
#define ARENA_CAP 32
#endif
#ifndef ARENA_SLOTS
#define ARENA_SLOTS 24
#endif

/* one separate 1-D object per slot: a byte written through a char* into a 2-D array makes
 * cbmc rebuild the whole 2-D object per write (measured: 6M variables instead of 0.3M) */
#define SLOT(n) static char arena_slot##n[ARENA_CAP];
SLOT(0) SLOT(1) SLOT(2) SLOT(3) SLOT(4) SLOT(5) SLOT(6) SLOT(7) SLOT(8) SLOT(9) SLOT(10) SLOT(11)
SLOT(12) SLOT(13) SLOT(14) SLOT(15) SLOT(16) SLOT(17) SLOT(18) SLOT(19) SLOT(20) SLOT(21) SLOT(22) SLOT(23)
static char *const arena[24] = {
  arena_slot0, arena_slot1, arena_slot2, arena_slot3, arena_slot4, arena_slot5, arena_slot6, arena_slot7,
  arena_slot8, arena_slot9, arena_slot10, arena_slot11, arena_slot12, arena_slot13, arena_slot14, arena_slot15,
  arena_slot16, arena_slot17, arena_slot18, arena_slot19, arena_slot20, arena_slot21, arena_slot22, arena_slot23 };
#if ARENA_SLOTS > 24
#error "at most 24 arena slots"
#endif
static unsigned int arena_used = 0;

static int arena_need(stralloc *x, unsigned int n)
{
  if (!x->s) {
    CHECK(arena_used < ARENA_SLOTS, "arena: more strallocs than ARENA_SLOTS (harness sizing)");
    ASSUME(arena_used < ARENA_SLOTS);
    x->s = arena[arena_used++];
    x->a = ARENA_CAP;
    x->len = 0;
  }
  CHECK(n <= x->a, "arena: stralloc growth beyond ARENA_CAP inside the bound (harness sizing)");
  ASSUME(n <= x->a);
  return 1;
}

int stralloc_ready(stralloc *x, unsigned int n) { return arena_need(x, n); }

int stralloc_readyplus(stralloc *x, unsigned int n)
{
  unsigned int len = x->s ? x->len : 0;
  CHECK(n <= 0xffffffffu - len, "arena: len+n wraps");
  ASSUME(n <= 0xffffffffu - len);
  return arena_need(x, len + n);
}
