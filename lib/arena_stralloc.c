/* arena_stralloc.c - replaces only stralloc_eady.c (stralloc_ready, stralloc_readyplus)
 * by fixed-capacity slots, so that no malloc/realloc with a symbolic size is encoded
 * (DESIGN.md 2.3).  "Growth is not needed inside the bound" is an obligation: the CHECK
 * below fails if any path asks for more than ARENA_CAP bytes.  The real growth
 * arithmetic is proved separately (harness/C20 alloc lemmas).  All other stralloc_*
 * functions remain the real code. */
#include "verif.h"
#include "stralloc.h"

#ifndef ARENA_CAP
#define ARENA_CAP 32
#endif
#ifndef ARENA_SLOTS
#define ARENA_SLOTS 24
#endif

static char arena[ARENA_SLOTS][ARENA_CAP];
static unsigned int arena_used = 0;

static int arena_need(stralloc *x, unsigned int n)
{
  if (!x->s) {
    CHECK(arena_used < ARENA_SLOTS, "arena: more strallocs than ARENA_SLOTS (harness sizing)");
    ASSUME(arena_used < ARENA_SLOTS);
    x->s = arena[arena_used++];
    x->a = ARENA_CAP;
    x->len = 0;
  }
  CHECK(n <= x->a, "arena: stralloc growth beyond ARENA_CAP inside the bound (harness sizing)");
  ASSUME(n <= x->a);
  return 1;
}

int stralloc_ready(stralloc *x, unsigned int n) { return arena_need(x, n); }

int stralloc_readyplus(stralloc *x, unsigned int n)
{
  unsigned int len = x->s ? x->len : 0;
  CHECK(n <= 0xffffffffu - len, "arena: len+n wraps");
  ASSUME(n <= 0xffffffffu - len);
  return arena_need(x, len + n);
}
