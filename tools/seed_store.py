#!/usr/bin/env python3
"""Copy a confirmed seeded change from a sub-agent's scratch OUT/ directory into /verif/seeded/<id>/.
usage: seed_store.py <id> <property> <k> <first_run> <caught_by> <note> [<sv-output-file>]"""
import json, os, shutil, sys
name, prop, k, first, caught_by, note = sys.argv[1:7]
svf = sys.argv[7] if len(sys.argv) > 7 else "/tmp/sv-%s-%s.out" % (prop.lower(), k)
src = os.environ.get("SEEDSRC") or "/tmp/seed-%s/OUT" % prop
dst = "/verif/seeded/%s" % name
shutil.rmtree(dst, ignore_errors=True)
os.makedirs(dst)
shutil.copy("%s/patch%s.diff" % (src, k), dst + "/patch.diff")
shutil.copytree("%s/demo%s" % (src, k), dst + "/demo", ignore=shutil.ignore_patterns("*.o", "*.bin", "a.out"))
for extra in ("common.sh",):
    if os.path.exists(os.path.join(src, extra)):
        shutil.copy(os.path.join(src, extra), dst + "/" + extra)
m = json.load(open("%s/meta%s.json" % (src, k)))
sv = open(svf).read().splitlines() if os.path.exists(svf) else []
meta = {
  "id": name, "property": prop,
  "origin": "independent sub-agent given only the property text and its own scratch worktree (nothing from /verif)",
  "summary": m.get("summary"), "needs_to_manifest": m.get("needs_to_manifest"), "files": m.get("files"),
  "author_verification": m.get("verified"),
  "confirmed_by_me": {"how": "tools/seed_verify.sh in a fresh scratch worktree of /repo HEAD: make; demo on pristine tree; git apply patch.diff; make; "
                             "make -C tests test; demo on patched tree; then ./check with VERIF_REPO pointing at the patched tree; worktree removed",
                      "result": sv[0] if sv else ""},
  "check_result": {"first_run": first, "now": os.environ.get("SEEDNOW", "VIOLATION with native replay rc 1"), "caught_by": caught_by, "note": note},
  "run": "git -C /repo apply /verif/seeded/%s/patch.diff && (cd /verif && ./check %s); git -C /repo checkout -- ." % (name, prop),
}
json.dump(meta, open(dst + "/meta.json", "w"), indent=1)
print("stored", name)
