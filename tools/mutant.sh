#!/bin/sh
# usage: tools/mutant.sh <name> <property> '<python expr transforming s for file F>' <file> [check args...]
# Applies a textual mutation to a scratch worktree of /repo (outside /repo and /verif), runs the check against it,
# removes the worktree.  Exit status = that of the check (1 expected: VIOLATION).
name=$1; prop=$2; expr=$3; file=$4; shift 4
wt=/tmp/wt-mut-$name
git -C /repo worktree remove --force $wt >/dev/null 2>&1
git -C /repo worktree add -q --detach $wt HEAD || exit 9
python3 - "$wt/$file" "$expr" <<'PY' || { git -C /repo worktree remove --force $wt; exit 9; }
import sys
p, expr = sys.argv[1], sys.argv[2]
s = open(p, encoding="latin-1").read()
t = eval(expr)
assert t != s, "mutation did not change the file"
open(p, "w", encoding="latin-1").write(t)
PY
cd /verif && VERIF_REPO=$wt ./check $prop "$@"
rc=$?
git -C /repo worktree remove --force $wt
exit $rc
