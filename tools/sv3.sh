#!/bin/sh
# usage: tools/sv3.sh Cxx k [check args...]   - confirm round-3 seed k of property Cxx (sub-agent output in /tmp/seed3-Cxx/OUT)
p=$1; k=$2; shift 2
lc=$(echo $p | tr A-Z a-z)
cd /verif && tools/seed_verify.sh ${lc}-r3-$k $p /tmp/seed3-$p/OUT/patch$k.diff /tmp/seed3-$p/OUT/demo$k "$@" > /tmp/sv3-$lc-$k.out 2>&1
cat /tmp/sv3-$lc-$k.out
