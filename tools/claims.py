"""Per-property claim texts for MANIFEST.json (edited together with harness/Cxx/plan.py)."""
HOOK_COMMITS = []
NOT_APPLICABLE = {}
CLAIMS = {
 "C06": {
  "design_ref": "DESIGN.md 4 C06",
  "text": "Bounded model checking of the real qmail-remote.c blast(): for EVERY message of up to N bytes (N=6 quick, 8 thorough; all "
          "256 byte values, EOF and one read error at any position) the DATA payload contains CRLF.CRLF exactly once at its very end, "
          "no bare LF, and a reference RFC 5321 receiver decodes it back to the message (byte-identical for CR-free messages); aborted "
          "transfers never contain the terminator. Decided by SAT, not sampled; longer messages are outside the claim.",
  "note": "substdio replaced by an ideal byte stream whose contract is proved on the real substdio in the C20 lemmas; _exit stubbed; "
          "bound N on message length; cbmc's C model and SAT solver trusted.",
 },
}
