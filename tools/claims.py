"""Per-property claim texts for MANIFEST.json (edited together with harness/Cxx/plan.py)."""
HOOK_COMMITS = []
NOT_APPLICABLE = {}
CLAIMS = {
 "C01": {
  "design_ref": "DESIGN.md 4 C01",
  "text": "Bounded model checking of the whole real qmail-queue.c main() (+triggerpull, open_excl, fmtqfn) against a file-system model: for every envelope "
          "of up to E bytes (E=5 quick, 7 thorough; any bytes, EOF and read error anywhere), every body length up to B, ANY number of failing system calls "
          "and EVERY crash instant (invariant evaluated at the entry of every system call on fsynced data only): todo/N appears only when mess/N and intd/N "
          "are complete, flushed and fsynced; exit 0 iff todo/N exists; documented exit codes; alarm(DEATH<OSSIFIED) before any file; content harness: stored "
          "bytes equal Received line + body and the envelope as supplied; address boundary 1001..1004 bytes executed with the real constant.",
  "note": "user-level buffering replaced by an ideal buffered stream (pending counter, early write-out at any put) whose contract is proved on the real "
          "substdio in C20; directory operations synchronous; pid/uid/time/inode concrete; boundary runs use one concrete filler byte; bounds E,B.",
 },
 "C02": {
  "design_ref": "DESIGN.md 4 C02, 6",
  "text": "Schedules of whole processes are NOT explored (out of reach for the solver on this code). Decided instead, per program step on the files of one "
          "message, with symbolic pre-states / all failures / all crash instants: injector creates mess (named by its own inode) -> intd -> todo in that order and "
          "leaves only S1/S2 leftovers (C01 harness); daemon preprocessing removes/re-creates/fsyncs info, local, remote BEFORE asking for todo/N removal; "
          "messdone removes info only after local, remote, todo were seen ENOENT and asks foop/N only afterwards; job_close unlinks a channel file only at EOF "
          "with nothing left; cleanup collects only mess files older than OSSIFIED with info and todo ENOENT; the cleaner unlinks exactly intd/N+mess/N or "
          "intd/N+todo/N; a second qmail-send exits 111 at lock/sendmutex before touching anything.",
  "note": "claim is per transition (rely/guarantee style); that the invariant holds initially, that no fourth program writes the queue, kernel inode "
          "uniqueness and link() atomicity are assumed; interleavings are covered only through the per-step obligations; bounds as in C01/C03/C18.",
 },
 "C03": {
  "design_ref": "DESIGN.md 4 C03",
  "text": "Per-transition bounded model checking of the real qmail-send.c from arbitrary (symbolic) daemon states: del_dochan on arbitrary report bytes "
          "(K marks; D appends the bounce note THEN marks; Z nothing unless expired; garbled/out-of-range/unused nothing; lost spawner nothing); pass_dochan "
          "(one del_start per T record at its own offset, read errors never count as EOF); job_close (channel file unlinked iff EOF and numtodo==0, else "
          "re-queued); messdone (info removed only after local/remote/todo ENOENT and bounce injected; every failure re-schedules); pqadd (restart rebuilds "
          "schedules); todo_do (one T record per envelope recipient in exactly one channel file, fsynced before todo is removed). Every system call may fail.",
  "note": "callees cut to observing stubs and verified separately (listed in evidence.cuts); whole histories are covered only by induction over these "
          "steps from arbitrary valid states; liveness clauses are not decided; bounds: reports <= 5..8 bytes, envelope <= 6..8 bytes, 3 slots, 2 jobs.",
 },
 "C04": {
  "design_ref": "DESIGN.md 4 C04",
  "text": "Per-transition bounded model checking: pass_dochan never starts a delivery for a D record and takes the entry off the queue while its job is "
          "open; markdone writes exactly one 'D' at the recipient's own offset; del_start/del_dochan keep concurrencyused == slots in use <= concurrency from "
          "any valid state; nothing is started after TERM or without a free slot; start-up clamps concurrency to min(configured, spawner byte) (real main() "
          "prologue).",
  "note": "'delivered exactly once without crashes' follows on paper from these steps, it is not checked end to end; 3 slots, 2 jobs, reports <= 5..8 bytes.",
 },
 "C09": {
  "design_ref": "DESIGN.md 4 C09",
  "text": "Bounded model checking of qmail-remote.c smtpcode() against a reference RFC 5321 reply reader on fully symbolic server streams (<=12 bytes quick), "
          "smtp() as a whole over per-phase symbolic reply codes / continuation lines / disconnects for 1..2 recipients (r/h/s per recipient in order, K/Z/D "
          "verdict, 'Possible duplicate' iff after the final dot), dropped()/quit(), and qmail-rspawn.c report() for every wait status and every output of "
          "up to 8 bytes (K relayed only for exit 0, no crash, accepted recipient and a K record; no read beyond the output).",
  "note": "blast cut to a contract (C06); timeoutread/timeoutwrite stubbed; DNS/MX selection, TCP time-outs and tcpto outside; bounds in evidence.",
 },
 "C12": {
  "design_ref": "DESIGN.md 4 C12",
  "text": "Bounded model checking of qmail-local.c: mailfile() + gfrom.c round trip through a reference mbox(5) reader for every message of up to 8 bytes "
          "(11 thorough); any single failing put/flush/fsync/read => ftruncate to the length at lock time and exit 111, lock before seek_end; "
          "maildir_child() against a file model with crash check at every system call (new/ entry implies complete+synced, exit 0 iff linked); parent "
          "status mapping for all 65536 wait statuses; From_ line sanitising for senders up to 6 bytes.",
  "note": "concurrent mbox deliveries are covered only through the lock protocol (flock semantics assumed); lock_ex failing for other reasons than the "
          "alarm is outside the fault list; 1024-byte buffer boundaries only through the C20 layer-0 lemmas; time/pid/host concrete.",
 },
 "C13": {
  "design_ref": "DESIGN.md 4 C13",
  "text": "Bounded model checking of the real qmail-local.c main(): .qmail search order and path safety for every extension up to 5 bytes over 3 files with "
          "symbolic names/permissions and symbolic home mode; whole instruction loop against a reference dot-qmail(5) interpreter for every .qmail body of up "
          "to 9 bytes; mailprogram() for all 65536 wait statuses; bouncexf() for headers up to 8 bytes; mailforward(); Return-Path/Delivered-To newline safety.",
  "note": "what /bin/sh does is outside; quote2 over-approximated in the envelope-lines harness (C17 covers quote.c); NUL bytes in .qmail excluded; "
          "judgements (forwards before exit 99 honoured, '/' in ext only descends) recorded in harness comments.",
 },
 "C14": {
  "design_ref": "DESIGN.md 4 C14",
  "text": "Bounded model checking of qmail-send.c addbounce() (recipient <= 2..6 bytes, report <= 8..12 bytes, any bytes: exactly one paragraph, no forged "
          "<recipient>: paragraph possible), injectbounce() for every sender form (ordinary, VERP -@[], empty -> double bounce with #@[], #@[] -> discard; "
          "bounce file unlinked only after qmail_close returned \"\"), the three-step loop-freedom argument, and the real qmail.c envelope protocol.",
  "note": "constmap cut to a one-entry table; quote/quote2 header formatting cut (C17); body copy covered by layer-0 lemmas; bounds in evidence.",
 },
 "C15": {
  "design_ref": "DESIGN.md 4 C15",
  "text": "squareroot() exact for EVERY age 0..2^32-1 (one SAT query, kissat); nextretry() strictly in the future and equal to birth+(floor(sqrt(age))+10|20)^2 "
          "for all birth, now < 2^40 using the proved sqrt contract; prioq insert/delmin/min from ANY valid heap of n elements, n = 0..12 (20 thorough): heap "
          "order, multiset preservation, min is earliest-due (inductive step); due-time gate, flagdying, restart schedule and ALRM handled in the C03 "
          "pass_dochan/pqadd/del_dochan obligations.",
  "note": "ages >= 2^32 s outside the property's domain; heaps larger than the grid; 'retried promptly' only as the select-timeout bound in C16.",
 },
 "C16": {
  "design_ref": "DESIGN.md 4 C16",
  "text": "Bounded model checking of the REAL qmail-send.c main() loop + todo_do + trigger.c against an environment automaton for 1..2 injectors advanced "
          "by a symbolic number of steps inside every daemon system call (= every interleaving at system-call granularity, K=5..6 loop iterations): whenever "
          "the daemon blocks, every published todo entry was seen by the scan or the trigger descriptor is readable (no lost wake-up); no busy rescanning "
          "once injectors are quiet; select timeout 0 iff work is pending or due, otherwise positive and <= earliest-due - now + SLEEP_FUZZ.",
  "note": "FIFO and directory-stream semantics are a model (stated in evidence.stubs); injector step order is what C01 proves about qmail-queue; clock "
          "stands still in the lost-wake-up query; other subsystems of main() cut; HASNAMEDPIPEBUG1 variant not compiled.",
 },
 "C18": {
  "design_ref": "DESIGN.md 4 C18",
  "text": "Bounded model checking of the whole real qmail-clean.c main() for every request stream on a grid of concrete lengths (one request of 1..10 "
          "bytes, two requests, unterminated tails; all byte values): exactly one status byte per request, unlink only for well-formed foop/N|todo/N requests "
          "and only on intd/N, mess/S/N, todo/N of that decimal number, malformed requests change nothing; qmail-send del_dochan on arbitrary report bytes "
          "(shared with C03).",
  "note": "cleanuppid cut (touches pid/ only); digit strings that overflow unsigned long are beyond the length grid; spawn.c command parsing: see C20/C11 "
          "kernels where built.",
 },
 "C05": {
  "design_ref": "DESIGN.md 4 C05",
  "text": "Bounded model checking of the real qmail-smtpd.c blast()/put/straynewline against a reference RFC 5321 receiver for EVERY byte stream of up to "
          "14 bytes (20 thorough): bytes handed to the queue, bytes consumed, 451 iff a bare LF precedes the terminator; decode(ref_encode(m)) == m for "
          "every m <= 6..10 bytes; the REAL qmail-remote blast() composed with the REAL qmail-smtpd blast() for every message <= 5..7 bytes; commands() resumes "
          "with exactly the bytes after the terminator.",
  "note": "ideal byte streams (C20 layer-0 lemmas); qmail_* cut to observing stubs; recorded judgement: a line '.CR<non-LF>' may keep or lose its dot; "
          "streams longer than the bound, time-outs outside.",
 },
 "C19": {
  "design_ref": "DESIGN.md 4 C19",
  "text": "Bounded model checking of qmail-pop3d.c: RETR/TOP output vs a reference encoder for every file of up to 6 bytes (8 thorough) and TOP 0..9; "
          "sessions over a 2-message table from ARBITRARY deletion marks (K=1 is the inductive step, K=2 quick, K=3 thorough): fixed numbering, bad numbers "
          "refused without effect, unlink only at QUIT and only for marked messages, rename new/ -> cur/:2,; msgno() for numbers of up to 25 digits; getlist over "
          "a directory model; main() refuses uid 0 before anything else; qmail-popup: only USER/PASS/APOP/NOOP/QUIT honoured, descriptor 3 carries exactly "
          "user NUL pass NUL timestamp NUL.",
  "note": "STAT's count outside (as the property says); arguments <= 3 bytes in sessions; files vanishing mid-session only as open failure; ordering among "
          "equal mtimes not demanded.",
 },
 "C06": {
  "design_ref": "DESIGN.md 4 C06",
  "text": "Bounded model checking of the real qmail-remote.c blast(): for EVERY message of up to N bytes (N=6 quick, 8 thorough; all "
          "256 byte values, EOF and one read error at any position) the DATA payload contains CRLF.CRLF exactly once at its very end, "
          "no bare LF, and a reference RFC 5321 receiver decodes it back to the message (byte-identical for CR-free messages); aborted "
          "transfers never contain the terminator. Decided by SAT, not sampled; longer messages are outside the claim.",
  "note": "substdio replaced by an ideal byte stream whose contract is proved on the real substdio in the C20 lemmas; _exit stubbed; "
          "bound N on message length; cbmc's C model and SAT solver trusted.",
 },
}
