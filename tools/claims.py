"""Per-property claim texts for MANIFEST.json (edited together with harness/Cxx/plan.py)."""
HOOK_COMMITS = []
NOT_APPLICABLE = {}
CLAIMS = {
 "C01": {
  "design_ref": "DESIGN.md 4 C01",
  "text": "Bounded model checking of the whole real qmail-queue.c main() (+triggerpull, open_excl, fmtqfn) against a file-system model: for every envelope "
          "of up to E bytes (E=5,7 quick, up to 9 thorough; any bytes, EOF and read error anywhere), every body length up to B, ANY number of failing system calls "
          "and EVERY crash instant (invariant evaluated at the entry of every system call on fsynced data only): todo/N appears only when mess/N and intd/N "
          "are complete, flushed and fsynced; exit 0 iff todo/N exists; documented exit codes; alarm(DEATH<OSSIFIED) before any file; content harness: stored "
          "bytes equal Received line + body and the envelope as supplied; address boundary 1001..1004 bytes executed with the real constant; SIGALRM "
          "before any one system call; the substdio put/get/copy lemmas the ideal streams rest on are decided as part of this check.",
  "note": "user-level buffering replaced by an ideal buffered stream (pending counter, early write-out at any put) whose contract is proved on the real "
          "substdio in C20; directory operations synchronous; pid/uid/time/inode concrete; boundary runs use one concrete filler byte; bounds E,B.",
 },
 "C02": {
  "design_ref": "DESIGN.md 4 C02, 6",
  "text": "Schedules of whole processes are NOT explored (out of reach for the solver on this code). Decided instead, per program step on the files of one "
          "message, with symbolic pre-states / all failures / all crash instants: injector creates mess (named by its own inode) -> intd -> todo in that order and "
          "leaves only S1/S2 leftovers (C01 harness); daemon preprocessing removes/re-creates/fsyncs info, local, remote BEFORE asking for todo/N removal; "
          "messdone removes info only after local, remote, todo were seen ENOENT and asks foop/N only afterwards; job_close unlinks a channel file only at EOF "
          "with nothing left; cleanup collects only mess files older than OSSIFIED with info and todo ENOENT; the cleaner unlinks exactly intd/N+mess/N or "
          "intd/N+todo/N; a second qmail-send exits 111 at lock/sendmutex before touching anything and the running one never closes the mutex descriptor; "
          "injectbounce removes bounce/N only after the bounce message was accepted by the queue."
          " Restart and garbage collection read the queue through readsubdir.c: every numbered entry of every split directory is handed out exactly once, strays never (readsubdir_scan, pqstart_all).",
  "note": "claim is per transition (rely/guarantee style); that the invariant holds initially, that no fourth program writes the queue, kernel inode "
          "uniqueness and link() atomicity are assumed; interleavings are covered only through the per-step obligations; bounds as in C01/C03/C18.",
 },
 "C03": {
  "design_ref": "DESIGN.md 4 C03",
  "text": "Per-transition bounded model checking of the real qmail-send.c from arbitrary (symbolic) daemon states: del_dochan on arbitrary report bytes "
          "(K marks; D appends the bounce note THEN marks; Z nothing unless expired; garbled/out-of-range/unused nothing; lost spawner nothing); pass_dochan "
          "(one del_start per T record at its own offset, read errors never count as EOF); job_close (channel file unlinked iff EOF and numtodo==0, else "
          "re-queued); messdone (info removed only after local/remote/todo ENOENT and bounce injected; every failure re-schedules); pqadd (restart rebuilds "
          "schedules); todo_do (one T record per envelope recipient in exactly one channel file, fsynced before todo is removed). Every system call may fail."
          " Restart: pqstart() calls pqadd() exactly once per numbered info file (real readsubdir.c over a directory model); todo_do accepts only purely decimal names; fmtqfn names parse back to dir + id mod split + id.",
  "note": "callees cut to observing stubs and verified separately (listed in evidence.cuts); whole histories are covered only by induction over these "
          "steps from arbitrary valid states; liveness clauses are not decided; bounds: reports <= 5..8 bytes, envelope <= 6..8 bytes, 3 slots, 2 jobs.",
 },
 "C04": {
  "design_ref": "DESIGN.md 4 C04",
  "text": "Per-transition bounded model checking: pass_dochan never starts a delivery for a D record and takes the entry off the queue while its job is "
          "open; markdone writes exactly one 'D' at the recipient's own offset; del_start/del_dochan keep concurrencyused == slots in use <= concurrency from "
          "any valid state; nothing is started after TERM or without a free slot; start-up clamps concurrency to min(configured, spawner byte) (real main() "
          "prologue)."
          " The command channel (comm_write/comm_do/comm_canwrite): for every sequence of hand-overs and write outcomes (short writes, EAGAIN, EPIPE) the spawner receives each delivery command exactly once and intact.",
  "note": "'delivered exactly once without crashes' follows on paper from these steps, it is not checked end to end; 3 slots, 2 jobs, reports <= 5..8 bytes.",
 },
 "C07": {
  "design_ref": "DESIGN.md 4 C07",
  "text": "Bounded model checking of the real qmail.c (close returns \"\" iff no failure was flagged and qmail-queue exited 0, and then it received exactly the message "
          "and F..NUL (T..NUL)* NUL; every wait status 0..65535 mapped to its D/Z class; after a flagged failure the envelope is never completed), received.c "
          "(only safe characters from the five peer-controlled strings), smtp_data (250 iff queued; hops >= 100 -> 554, size -> 552, D -> 554, Z -> 451), blast's hop "
          "counter vs the stored message, and the WHOLE main() of qmail-qmqpd and qmail-qmtpd on every input of up to 10 bytes (12/13 thorough) plus templates "
          "with symbolic framing bytes around concrete fillers (addresses of 999/1000 bytes, recipient framing, sender, body) against a reference netstring parser; "
          "a second package on the same QMTP connection after a warm-up package that dirtied every static buffer."
          " Disconnect or stall at any byte: timeoutread/timeoutwrite units and the daemons' saferead/safewrite never hand a non-positive count to the stream layer (exit without queuing). blast_databytes: with databytes in force the real blast()/put() flag the transaction iff more than databytes decoded bytes are handed over; qmail-queue's whole main() (C01 queue_order) is part of this check: an envelope that ends without its terminator is refused.",
  "note": "fork/pipe/exec/wait stubbed (the queue program is represented by its C01 contract); hop counts 98..101 are not executed (counter proved equal to the "
          "reference count for counts 0..1, smtp_data proved for every symbolic count); exit-82 custom text assumed to start with D or Z as qmail-queue(8) documents; "
          "more than two packages per QMTP connection and write errors towards the client outside.",
 },
 "C08": {
  "design_ref": "DESIGN.md 4 C08",
  "text": "Bounded model checking of the real SMTP handlers (helo/ehlo/rset/mail/rcpt/data) with addrparse, bmfcheck, addrallowed for every sequence of 3 commands "
          "(4 thorough) with arguments up to 5 bytes, RELAYCLIENT unset or set, rcpthosts absent or 2 entries, one badmailfrom entry, against a ghost transaction kept "
          "from the replies: submission only after MAIL + accepted RCPT + DATA with exactly that envelope, resets as stated, RCPT 250 iff policy; addrparse vs the "
          "documented forms (<= 7 bytes + localiphost template; the 900-byte limit as a parametric copy with the constant scaled to 13); rcpthosts() vs a reference suffix matcher incl. the cdb list; commands() line handling; constmap lemma."
          " The control FILES themselves: control_readfile/readline/readint against a reference reader of qmail-control(5); rcpthosts_init()+rcpthosts() over a symbolic rcpthosts file (an existing empty file still restricts); qmail-newmrh keys (lower-cased, once each, fsync/rename order); ipme_is.",
  "note": "rcpthosts/constmap cut to reference functions inside the sequence harness, their equivalence to the real code proved by the lemma obligations at small "
          "sizes; ipme_is stubbed; morercpthosts.cdb file format is C11's cdb reader.",
 },
 "C10": {
  "design_ref": "DESIGN.md 4 C10",
  "text": "Bounded model checking of qmail-send.c rewrite() against a model of qmail-send(8)/addresses(5) for every recipient of up to 6 bytes (9 thorough) with "
          "symbolic locals (<=2x3), virtualdomains (<=2 entries, keys <=4, tags <=2), percenthack, envnoathost; senderadd() VERP expansion; regetcontrols() over "
          "two HUPs; todo_do() writes each recipient once, in order, to the channel rewrite() chose; lemma: real constmap_init+constmap == case-insensitive linear search."
          " control_readfile/readline/readint (what the tables are built from) are decided against a reference reader.",
  "note": "constmap() cut under the lemma (proved for up to 3 entries x 3 bytes); control-file parsing and getcontrols() not reached; recorded judgements: an address whose "
          "percent-hack rewrite again ends in a percent-hack domain is not compared (documents silent), envnoathost without '@'.",
 },
 "C11": {
  "design_ref": "DESIGN.md 4 C11",
  "text": "Bounded model checking of cdb_hash vs cdbmake hash (keys <= 6 bytes), pack/unpack for all 2^32 values, cdb_seek over an abstract file built from the cdb "
          "format specification (0..2 records, duplicates, same bucket) and over arbitrary corrupt/truncated images, the real writer (cdbmake_*, cdbmss) "
          "feeding the real reader for a table with duplicate keys across hash-pair blocks (block size scaled 1000 -> 1), qmail-newu main() on 1-2 assign lines, "
          "nughde_get() (exact entry, longest wildcard ending in a break character, catch-all; any cdb error -> QLX_CDB), spawn() child branch (setgroups, setgid, "
          "setuid in that order, uid 0 refused before execv, exact argv), qmail-getpw userext rules over a 2-entry passwd table.",
  "note": "the writer->reader round trip uses concrete keys (symbolic data bytes) because count[h&255] with a symbolic hash does not close; real NSS and "
          "group databases outside; local part <= 3 bytes quick, 5 thorough.",
 },
 "C17": {
  "design_ref": "DESIGN.md 4 C17",
  "text": "Bounded model checking: addrparse(addrmangle(local@host)) == local@host for every local part of up to 6 bytes (12 thorough) with the real qmail-remote.c and "
          "qmail-smtpd.c in one query; quote2 -> token822_parse -> addrlist -> unquote round trip (local part <= 3 bytes); quote2 output vs an RFC 822 reference reader "
          "(<= 7 bytes, 12 thorough); 24 syntactic address-list forms (comments inside display names, routes, groups, quoted pairs) through token822_addrlist + rwgeneric give exactly the mailboxes known by construction, and their "
          "unparse output re-read by the reference reader gives the same tokens; doheaderfield never keeps Bcc/Resent-Bcc/Return-Path."
          " Grammar-derived obligations: addrlist_grammar (symbolic derivations of address-list syntax through the real token822_addrlist: exactly the address parts of the listed mailboxes reach the callback, each once) and addr_grammar (the real rwtocc on derived addresses: documented envelope form). Known finding: a comment as first/last token inside <...> defeats route stripping / plus-domain (recorded, assumed away by name).",
  "note": "weakest string bound of the suite: token822_parse on symbolic text closes only to 3-4 bytes, so the 'rewritten header parses again' clause is decided "
          "against an RFC 822 reference reader, not by a second real parse; -a/-h/-H/-f option handling and folding at LINELEN not reached.",
 },
 "C20": {
  "design_ref": "DESIGN.md 4 C20",
  "text": "Bounded, per-kernel model checking with cbmc's bounds/pointer/signed-overflow/shift checks on: layer-0 lemmas on the REAL substdo.c, substdi.c, "
          "substdio_copy.c, getln.c/getln2.c from arbitrary valid buffer states (sizes 1..8) with short writes/reads, EINTR and errors - exactly the contracts the "
          "ideal stream models implement; allocator arithmetic (GEN_ALLOC_readyplus instances, stralloc_catb/copyb/append, quote doit) for ALL 32-bit len/a/n; "
          "put/bput with any 64-bit length; netstring length parsers; dns.c record walkers from symbolic walker states; fmt/scan/date ranges; hfield, headerbody, "
          "commands, control, constmap, token822_parse, cdb_seek on corrupt files, spawner report routines; the guards whose constants lie outside every bound "
          "(REPORTMAX, qmtpd's 1000-byte recipient buffer with RELAYCLIENT) in parametric/template form; and the program-level surfaces in their owners' harnesses "
          "with the same checks on (smtpd blast and addrparse, qmail-remote smtpcode, pop3d/popup, .qmail and envelope lines, Received, address-list forms)."
          " New kernels: remoteinfo (ident reply parser), tcpto record file, dns_mxip sorting and ipalloc growth, ip_fmt/ip_scan, qmail-pw2u line parsing, control.c readers, regetcontrols (tables never point into overwritten buffers).",
  "note": "NOT a whole-suite claim: inputs longer than each kernel's bound (<= 3..12 bytes), 'thousands of tokens', deep nesting and true 2^31-byte lines are not "
          "executed - only the arithmetic that guards them is proved for all 32-bit values; use-after-free across long sessions and programs not listed are outside.",
 },
 "C09": {
  "design_ref": "DESIGN.md 4 C09",
  "text": "Bounded model checking of qmail-remote.c smtpcode() against a reference RFC 5321 reply reader on fully symbolic server streams (<=12 bytes quick), "
          "smtp() as a whole over per-phase symbolic reply codes / continuation lines / disconnects for 1..2 recipients (r/h/s per recipient in order, K/Z/D "
          "verdict, 'Possible duplicate' iff after the final dot), dropped()/quit(), and qmail-rspawn.c report() for every wait status and every output of "
          "up to 8 bytes (K relayed only for exit 0, no crash, accepted recipient and a K record; no read beyond the output)."
          " Stalls: timeoutread/timeoutwrite/timeoutconn units; qmail-remote's saferead/safewrite always end in dropped() on EOF, error or timeout; one dialogue phase may answer with a reply whose first byte is no digit (never an acceptance).",
  "note": "blast cut to a contract (C06); timeoutread/timeoutwrite stubbed; DNS/MX selection, TCP time-outs and tcpto outside; bounds in evidence.",
 },
 "C12": {
  "design_ref": "DESIGN.md 4 C12",
  "text": "Bounded model checking of qmail-local.c: mailfile() + gfrom.c round trip through a reference mbox(5) reader for every message of up to 8 bytes "
          "(11 thorough); any single failing put/flush/fsync/read => ftruncate to the length at lock time and exit 111, lock before seek_end, every input line "
          "split at an arbitrary point between getln2's two result parts; "
          "maildir_child() against a file model with crash check at every system call (new/ entry implies complete+synced, exit 0 iff linked, link() failing with EEXIST or otherwise); parent "
          "status mapping for all 65536 wait statuses; From_ line sanitising for senders up to 6 bytes.",
  "note": "concurrent mbox deliveries are covered only through the lock protocol (flock semantics assumed); lock_ex failing for other reasons than the "
          "alarm is outside the fault list; 1024-byte buffer boundaries only through the C20 layer-0 lemmas; time/pid/host concrete.",
 },
 "C13": {
  "design_ref": "DESIGN.md 4 C13",
  "text": "Bounded model checking of the real qmail-local.c main(): .qmail search order and path safety for every extension up to 5 bytes over 3 files with "
          "symbolic names/permissions and symbolic home mode; whole instruction loop against a reference dot-qmail(5) interpreter for every .qmail body of up "
          "to 9 bytes (the loop check runs before any delivery or forward); mailprogram() for all 65536 wait statuses; bouncexf() for headers up to 8 bytes; mailforward(); Return-Path/Delivered-To newline safety."
          " The instruction-loop harness runs the real qmesearch(); the forward-only restriction is tied to the execute bit of the SELECTED control file whether the -owner probes use stat() or open().",
  "note": "what /bin/sh does is outside; quote2 over-approximated in the envelope-lines harness (C17 covers quote.c); NUL bytes in .qmail excluded; "
          "judgements (forwards before exit 99 honoured, '/' in ext only descends) recorded in harness comments.",
 },
 "C14": {
  "design_ref": "DESIGN.md 4 C14",
  "text": "Bounded model checking of qmail-send.c addbounce() (recipient <= 2..6 bytes, report <= 8..12 bytes, any bytes: exactly one paragraph, no forged "
          "<recipient>: paragraph possible), injectbounce() for every sender form (ordinary, VERP -@[], empty -> double bounce with #@[], #@[] -> discard; "
          "bounce file unlinked only after qmail_close returned \"\"), the three-step loop-freedom argument, and the real qmail.c envelope protocol.",
  "note": "constmap cut to a one-entry table; quote/quote2 header formatting cut (C17); body copy covered by layer-0 lemmas; bounds in evidence.",
 },
 "C15": {
  "design_ref": "DESIGN.md 4 C15",
  "text": "squareroot() exact for EVERY age 0..2^32-1 (one SAT query, kissat); nextretry() strictly in the future and equal to birth+(floor(sqrt(age))+10|20)^2 "
          "for all birth, now < 2^40 using the proved sqrt contract; prioq insert/delmin/min from ANY valid heap of n elements, n = 0..12 (20 thorough): heap "
          "order, multiset preservation, min is earliest-due (inductive step); due-time gate, flagdying, restart schedule and ALRM handled in the C03 "
          "pass_dochan/pqadd/del_dochan obligations.",
  "note": "ages >= 2^32 s outside the property's domain; heaps larger than the grid; 'retried promptly' only as the select-timeout bound in C16.",
 },
 "C16": {
  "design_ref": "DESIGN.md 4 C16",
  "text": "Bounded model checking of the REAL qmail-send.c main() loop + todo_do + trigger.c against an environment automaton for 1..2 injectors advanced "
          "by a symbolic number of steps inside every daemon system call (= every interleaving at system-call granularity, K=5..6 loop iterations): whenever "
          "the daemon blocks, every published todo entry was seen by the scan or the trigger descriptor is readable (no lost wake-up); no busy rescanning "
          "once injectors are quiet; select timeout 0 iff work is pending or due, otherwise positive and <= earliest-due - now + SLEEP_FUZZ."
          " A HUP may interrupt any select() of the lost-wake-up harness (real sighup()/reread()); in the timeout harness 0..timeout seconds pass inside every select(), EINTR included, and the reference uses the true clock.",
  "note": "FIFO and directory-stream semantics are a model (stated in evidence.stubs); injector step order is what C01 proves about qmail-queue; clock "
          "stands still in the lost-wake-up query; other subsystems of main() cut; HASNAMEDPIPEBUG1 variant not compiled.",
 },
 "C18": {
  "design_ref": "DESIGN.md 4 C18",
  "text": "Bounded model checking of the whole real qmail-clean.c main() for every request stream on a grid of concrete lengths (one request of 1..10 "
          "bytes, two requests, unterminated tails; all byte values): exactly one status byte per request, unlink only for well-formed foop/N|todo/N requests "
          "and only on intd/N, mess/S/N, todo/N of that decimal number, malformed requests change nothing; qmail-send del_dochan on arbitrary report bytes "
          "(shared with C03)."
          " SIGCHLD must be blocked when docmd() forks a delivery and records its slot.",
  "note": "cleanuppid cut (touches pid/ only); digit strings that overflow unsigned long are beyond the length grid; spawn.c command parsing: see C20/C11 "
          "kernels where built.",
 },
 "C05": {
  "design_ref": "DESIGN.md 4 C05",
  "text": "Bounded model checking of the real qmail-smtpd.c blast()/put/straynewline against a reference RFC 5321 receiver for EVERY byte stream of up to "
          "14 bytes (20 thorough): bytes handed to the queue, bytes consumed, 451 iff a bare LF precedes the terminator; decode(ref_encode(m)) == m for "
          "every m <= 6..10 bytes; the REAL qmail-remote blast() composed with the REAL qmail-smtpd blast() for every message <= 5..7 bytes; commands() resumes "
          "with exactly the bytes after the terminator."
          " The stall/disconnect wrappers (timeoutread/timeoutwrite units, saferead/safewrite of the daemons) are decided as units; the ideal streams offer substdio_feed/PEEK/SEEK with symbolic read boundaries, so an in-place decoder is exposed at every boundary position.",
  "note": "ideal byte streams (C20 layer-0 lemmas); qmail_* cut to observing stubs; recorded judgement: a line '.CR<non-LF>' may keep or lose its dot; "
          "streams longer than the bound, time-outs outside.",
 },
 "C19": {
  "design_ref": "DESIGN.md 4 C19",
  "text": "Bounded model checking of qmail-pop3d.c: RETR/TOP output vs a reference encoder for every file of up to 6 bytes (8 thorough) and TOP 0..9; "
          "sessions over a 2-message table from ARBITRARY deletion marks (K=1 is the inductive step, K=2 quick, K=3 thorough): fixed numbering, bad numbers "
          "refused without effect, unlink only at QUIT and only for marked messages, rename new/ -> cur/:2,; msgno() for numbers of up to 25 digits; getlist over "
          "a directory model; main() refuses uid 0 before anything else; qmail-popup: only USER/PASS/APOP/NOOP/QUIT honoured, descriptor 3 carries exactly "
          "user NUL pass NUL timestamp NUL.",
  "note": "STAT's count outside (as the property says); arguments <= 3 bytes in sessions; files vanishing mid-session only as open failure; ordering among "
          "equal mtimes not demanded.",
 },
 "C06": {
  "design_ref": "DESIGN.md 4 C06",
  "text": "Bounded model checking of the real qmail-remote.c blast(): for EVERY message of up to N bytes (N=4,5 quick, 5..7 thorough; all "
          "256 byte values, EOF and one read error at any position) the DATA payload contains CRLF.CRLF exactly once at its very end, "
          "no bare LF, and a reference RFC 5321 receiver decodes it back to the message (byte-identical for CR-free messages); aborted "
          "transfers never contain the terminator. Decided by SAT, not sampled; longer messages are outside the claim.",
  "note": "substdio replaced by an ideal byte stream whose contract is proved on the real substdio in the C20 lemmas; _exit stubbed; "
          "bound N on message length; cbmc's C model and SAT solver trusted.",
 },
}
