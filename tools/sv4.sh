#!/bin/sh
# usage: tools/sv4.sh Cxx [check args...]   - confirm the round-4 seed of property Cxx (sub-agent output in /tmp/seed4-Cxx/OUT)
p=$1; shift 1
lc=$(echo $p | tr A-Z a-z)
mkdir -p /tmp/seed4-out/$p && cp -r /tmp/seed4-$p/OUT/. /tmp/seed4-out/$p/
cd /verif && tools/seed_verify.sh ${lc}-r4-1 $p /tmp/seed4-out/$p/patch1.diff /tmp/seed4-out/$p/demo1 "$@" > /tmp/sv-$lc-1.out 2>&1
cat /tmp/sv-$lc-1.out
