#!/bin/sh
# usage: tools/seed_verify.sh <seed-name> <property> <patch.diff> <demo-dir> [check args...]
# Confirms a seeded change independently: pristine tree builds + demo passes; patched tree builds, the 22 tests
# pass, demo fails; then runs our check against the patched tree.  Scratch worktree is removed afterwards.
name=$1; prop=$2; patch=$3; demo=$4; shift 4
wt=/tmp/wt-sv-$name
git -C /repo worktree remove --force $wt >/dev/null 2>&1
git -C /repo worktree add -q --detach $wt HEAD || exit 9
log=/tmp/sv-$name.log; : > $log
(cd $wt && make >>$log 2>&1) || { echo "SV pristine build FAILED"; }
sh $demo/run.sh $wt >>$log 2>&1; d0=$?
(cd $wt && git apply $patch) || { echo "SV patch does not apply"; git -C /repo worktree remove --force $wt; exit 9; }
(cd $wt && make >>$log 2>&1); b=$?
(cd $wt && make -C tests test >>$log 2>&1); t=$?
sh $demo/run.sh $wt >>$log 2>&1; d1=$?
echo "SV $name: demo(pristine)=$d0 build(patched)=$b tests(patched)=$t demo(patched)=$d1"
cd /verif && VERIF_REPO=$wt ./check $prop "$@" 2>&1 | grep -E "VIOLATION|^== |NOT-DECIDED" | cut -c1-400
git -C /repo worktree remove --force $wt
