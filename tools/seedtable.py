#!/usr/bin/env python3
"""Regenerate the seeded-changes table of DESIGN.md (9.6) from seeded/*/meta.json."""
import json, os, glob
V = os.path.dirname(os.path.dirname(os.path.abspath(__file__)))
rows = []
for m in sorted(glob.glob(os.path.join(V, "seeded", "*", "meta.json"))):
    d = json.load(open(m))
    cr = d["check_result"]
    rows.append("| %s | %s | %s | %s | %s |" % (d["id"], (d.get("summary") or "").replace("|", "/").replace("\n", " ")[:220],
                (d.get("needs_to_manifest") or "").replace("|", "/").replace("\n", " ")[:200], cr["first_run"][:60],
                (cr["caught_by"] + (" - " + cr["note"] if cr.get("note") else "")).replace("|", "/")[:420]))
tab = "| seed | change | needs | first run | caught by (now) |\n|---|---|---|---|---|\n" + "\n".join(rows)
n = len(rows)
first = {}
for m in glob.glob(os.path.join(V, "seeded", "*", "meta.json")):
    f = json.load(open(m))["check_result"]["first_run"]; first[f] = first.get(f, 0) + 1
now = {}
for m in glob.glob(os.path.join(V, "seeded", "*", "meta.json")):
    f = json.load(open(m))["check_result"].get("now", ""); k = "VIOLATION with a reproducing native replay" if f.startswith("VIOLATION") else f
    now[k] = now.get(k, 0) + 1
short = {}
for k, v in first.items():
    kk = k.split(":")[0].split("(")[0].strip().split(" for ./check")[0][:40]
    short[kk] = short.get(kk, 0) + v
tab += "\n\n%d seeded changes kept; first run: %s; now: %s.\n" % (
    n, ", ".join("%s %d" % kv for kv in sorted(short.items())), "; ".join("%s: %d" % kv for kv in sorted(now.items())))
p = os.path.join(V, "DESIGN.md")
s = open(p).read()
B, E = "<!-- SEEDTABLE-BEGIN -->", "<!-- SEEDTABLE-END -->"
if "SEEDTABLE\n" in s and B not in s:
    s = s.replace("SEEDTABLE\n", B + "\n" + E + "\n", 1)
a, b = s.index(B), s.index(E)
s = s[:a + len(B)] + "\n" + tab + "\n" + s[b:]
open(p, "w").write(s)
print("seed table: %d rows" % n)
