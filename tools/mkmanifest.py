#!/usr/bin/env python3
"""Regenerate MANIFEST.json from the table below (keeps the file valid and in one place)."""
import json, os, sys
VERIF = os.path.dirname(os.path.dirname(os.path.abspath(__file__)))
sys.path.insert(0, VERIF)
from tools.claims import CLAIMS, NOT_APPLICABLE, HOOK_COMMITS  # noqa

ids = [json.loads(l)["id"] for l in open(os.path.join(VERIF, "properties.jsonl"))]
checks = []
for pid in ids:
    if pid not in CLAIMS:
        continue
    c = CLAIMS[pid]
    checks.append({
        "property_id": pid,
        "quick_cmd": "./check %s --tier quick" % pid,
        "thorough_cmd": "./check %s --tier thorough" % pid,
        "evidence_file": "evidence/%s.json" % pid,
        "replay_cmd_template": "./check --replay {path}",
        "engine": "cbmc-harness",
        "level_claimed": {"category": "model_checking", "text": c["text"], "design_ref": c["design_ref"]},
        "level_note": c["note"],
        "technique": c.get("technique", "bounded symbolic execution of the real C units with CBMC 6.11 (SAT), "
                                        "unwinding assertions on, reachability witnesses, native replay of counterexamples"),
    })
na = [{"property_id": pid, "reason": NOT_APPLICABLE.get(pid, "check not built yet in this session (work in progress); not claimed")}
      for pid in ids if pid not in CLAIMS]
m = {
    "version": 1,
    "setup_cmd": "./check --setup",
    "hooks": {"guard": "NOTQMAIL_VERIF", "enable": "none needed: harnesses compile /repo sources directly with goto-cc; "
              "extraction uses #include, -D renames and regenerated copies under /verif/build",
              "baseline_off_cmd": "make -C /repo it >/dev/null 2>&1; make -C /repo/tests test",
              "source_commits": HOOK_COMMITS, "add_only": True},
    "engines": [{"name": "cbmc-harness", "path": "check", "serves_properties": [c["property_id"] for c in checks],
                 "kind_free_text": "python driver: regenerates harness inputs from /repo's working tree, goto-cc + cbmc 6.11 "
                 "(minisat/cadical/kissat), per-loop unwindsets with unwinding assertions, inline reachability witnesses, "
                 "gcc+ASan/UBSan native replay of counterexamples and witness vectors"}],
    "checks": checks,
    "not_applicable": na,
    "notes": "All checks are bounded: every claim is 'for all inputs inside the bounds listed in the evidence file'. "
             "See DESIGN.md for per-property bounds, stubs and what lies outside.",
}
json.dump(m, open(os.path.join(VERIF, "MANIFEST.json"), "w"), indent=1)
print("MANIFEST.json: %d checks, %d not_applicable" % (len(checks), len(na)))
