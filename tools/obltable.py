#!/usr/bin/env python3
"""Regenerate the obligation tables of DESIGN.md section 9.5 (between the OBLTABLE markers) from the plan files."""
import os, re, sys
sys.path.insert(0, os.path.join(os.path.dirname(os.path.abspath(__file__)), ".."))
import vlib  # noqa

VERIF = vlib.VERIF


def fmt_vals(vals):
    vals = sorted(set(vals), key=lambda v: (isinstance(v, str), v))
    if len(vals) > 6 and all(isinstance(v, int) for v in vals) and vals == list(range(vals[0], vals[-1] + 1)):
        return "%d..%d" % (vals[0], vals[-1])
    return ",".join(str(v) for v in vals)


def fmt_grid(grid):
    if grid == [{}]:
        return "1 point"
    keys = []
    for p in grid:
        for k in p:
            if k not in keys:
                keys.append(k)
    parts = ["%s=%s" % (k, fmt_vals([p[k] for p in grid if k in p])) for k in sorted(keys)]
    return "%s (%d)" % ("; ".join(parts), len(grid))


def table(pid):
    q = vlib.load_plan(pid).obligations("quick")
    t = {o.name: o for o in vlib.load_plan(pid).obligations("thorough")}
    nq = sum(len(o.grid) for o in q)
    nt = sum(len(o.grid) for o in t.values())
    out = ["**%s** - %d obligation groups, %d queries quick / %d thorough" % (pid, len(q), nq, nt), "",
           "| obligation | harness | quick grid | thorough grid | back end |", "|---|---|---|---|---|"]
    for o in q:
        h = o.harness[3:] if o.harness.startswith("../") else o.harness
        out.append("| %s | %s | %s | %s | %s |" % (o.name, h, fmt_grid(o.grid), fmt_grid(t[o.name].grid) if o.name in t else "-", o.backend))
    for n, o in t.items():
        if n not in {x.name for x in q}:
            h = o.harness[3:] if o.harness.startswith("../") else o.harness
            out.append("| %s | %s | - | %s | %s |" % (n, h, fmt_grid(o.grid), o.backend))
    return "\n".join(out) + "\n"


def main():
    pids = sorted(d for d in os.listdir(os.path.join(VERIF, "harness")) if re.fullmatch(r"C\d\d", d))
    body = "\n".join(table(p) for p in pids)
    path = os.path.join(VERIF, "DESIGN.md")
    s = open(path).read()
    b, e = "<!-- OBLTABLE-BEGIN -->", "<!-- OBLTABLE-END -->"
    if b not in s:
        sys.exit("markers missing in DESIGN.md")
    s = s[:s.index(b) + len(b)] + "\n\n" + body + "\n" + s[s.index(e):]
    open(path, "w").write(s)
    print("obligation tables: %d properties" % len(pids))


if __name__ == "__main__":
    main()
